package knxnet

// Finding (C03/C09): ErrCode.String() formats unknown codes with fmt.Sprintf("%#x", err), and fmt
// calls err.Error() for the verb %x, which calls String() again: unbounded recursion, the process
// dies with "fatal error: stack overflow" (not a recoverable panic). The status byte comes from
// the gateway (tunnelling ack, connect response, connection-state response).
// Run (before the fix):  go test -run TestErrCodeUnknown ./knx/knxnet   ->  the test binary crashes.

import (
	"fmt"
	"testing"
)

func TestErrCodeUnknown(t *testing.T) {
	s := fmt.Sprintf("%v", ErrCode(0x30))
	if s == "" {
		t.Fatal("empty")
	}
	t.Log(s)
}

package knx

// Finding (C03): a tunnelling acknowledgement that matches channel and sequence number but
// carries a status the library does not know (e.g. 0x30) must make the send fail and use up
// the sequence number. Before the fix the process died instead: requestTunnel formats the
// status with %#x, fmt calls ErrCode.Error(), ErrCode.String() formats the unknown code with
// %#x again: fatal error: stack overflow.
// Run: go test -run TestUnknownAckStatus ./knx   (crashes the test binary before the fix)

import (
	"testing"

	"github.com/vapourismo/knx-go/knx/cemi"
	"github.com/vapourismo/knx-go/knx/knxnet"
)

func TestUnknownAckStatus(t *testing.T) {
	client, gateway := newDummySockets()
	defer client.Close()
	defer gateway.Close()
	ack := make(chan *knxnet.TunnelRes)
	conn := makeTunnelConn(client, DefaultTunnelConfig, 1)
	conn.ack = ack
	go func() {
		msg := <-gateway.Inbound()
		req := msg.(*knxnet.TunnelReq)
		ack <- &knxnet.TunnelRes{Channel: req.Channel, SeqNumber: req.SeqNumber, Status: 0x30}
	}()
	err := conn.requestTunnel(&cemi.UnsupportedMessage{})
	if err == nil {
		t.Fatal("a rejected request must fail")
	}
	t.Log(err.Error())
	if conn.seqNumber != 1 {
		t.Fatalf("sequence number %d after a rejected request, expected 1", conn.seqNumber)
	}
}

package dpt

// Demonstration for the finding "two-octet float re-encoding drifts" (C06): payload
// 00 04 45 decodes to 10.93 and was re-encoded as 00 04 44 (10.92) by packF16.

import "testing"

func TestKvcF16Drift(t *testing.T) {
	bad := 0
	first := ""
	for hi := 0; hi < 256; hi++ {
		for lo := 0; lo < 256; lo++ {
			b := []byte{0, byte(hi), byte(lo)}
			var v, w DPT_9002
			if v.Unpack(b) != nil {
				continue
			}
			p := v.Pack()
			if w.Unpack(p) != nil || w != v {
				bad++
				if first == "" {
					first = string(rune('0'+0)) + ""
					t.Logf("first drifting payload: % x decodes to %v, re-encodes as % x = %v", b, v, p, w)
				}
			}
		}
	}
	if bad > 0 {
		t.Fatalf("KVC-FINDING: %d of 65536 payloads drift on read/write-back", bad)
	}
}

package knxnet

// Demonstration for the finding "serveTCPSocket spins forever on a header whose total
// length is smaller than the header" (obligation knxnet.serveTCPSocket#loop.step:loop0.progress).
// Run with: go test -overlay (copying this file into knx/knxnet) -run TestKvcTCPZeroLength

import (
	"net"
	"testing"
	"time"
)

func TestKvcTCPZeroLength(t *testing.T) {
	ln, err := net.ListenTCP("tcp4", &net.TCPAddr{IP: net.IPv4(127, 0, 0, 1)})
	if err != nil {
		t.Skip(err)
	}
	defer ln.Close()
	go func() {
		c, err := ln.Accept()
		if err != nil {
			return
		}
		// header length 6, version 0x10, service 0x0201, total length 0
		c.Write([]byte{6, 0x10, 0x02, 0x01, 0x00, 0x00})
		time.Sleep(100 * time.Millisecond)
		c.Close()
	}()
	conn, err := net.DialTCP("tcp4", nil, ln.Addr().(*net.TCPAddr))
	if err != nil {
		t.Skip(err)
	}
	defer conn.Close()
	inbound := make(chan Service)
	go serveTCPSocket(conn, nil, inbound)
	select {
	case _, open := <-inbound:
		if open {
			t.Fatal("unexpected frame")
		}
		// receiver ended after the peer closed: fine
	case <-time.After(2 * time.Second):
		t.Fatal("KVC-FINDING: receiver still running 2 s after the peer closed the connection: it re-peeks the same 6-byte header forever (total length 0 consumes nothing)")
	}
}

package main

import (
	"fmt"
	"go/token"
	"go/types"
	"os"
	"strings"

	"golang.org/x/tools/go/ssa"
)

func (e *Exec) pushDefer(fr *Frame, st *State, d *ssa.Defer) {
	cc := d.Common()
	df := deferred{call: cc, pos: d.Pos()}
	if !cc.IsInvoke() {
		if _, isB := cc.Value.(*ssa.Builtin); !isB {
			if _, isF := cc.Value.(*ssa.Function); !isF {
				df.fnv = e.operand(fr, st, cc.Value)
			}
		}
	} else {
		df.fnv = e.operand(fr, st, cc.Value)
	}
	for _, a := range cc.Args {
		df.args = append(df.args, e.operand(fr, st, a))
	}
	fr.defers = append(fr.defers, df)
}

func (e *Exec) runDefers(fr *Frame, st State) []Outcome {
	outs := []Outcome{{st: st}}
	for i := len(fr.defers) - 1; i >= 0; i-- {
		d := fr.defers[i]
		var next []Outcome
		for _, o := range outs {
			next = append(next, e.callCommon(fr, o.st, d.call, d.fnv, d.args, d.pos)...)
		}
		outs = next
	}
	return outs
}

func (e *Exec) doCall(fr *Frame, st State, in ssa.CallInstruction) []Outcome {
	cc := in.Common()
	var fnv Val
	if cc.IsInvoke() {
		fnv = e.operand(fr, &st, cc.Value)
	} else {
		switch cc.Value.(type) {
		case *ssa.Builtin, *ssa.Function:
		default:
			fnv = e.operand(fr, &st, cc.Value)
		}
	}
	var args []Val
	for _, a := range cc.Args {
		args = append(args, e.operand(fr, &st, a))
	}
	if g, isGo := in.(*ssa.Go); isGo {
		return e.goStmt(fr, st, g, fnv, args)
	}
	return e.callCommon(fr, st, cc, fnv, args, in.Pos())
}

func (e *Exec) callCommon(fr *Frame, st State, cc *ssa.CallCommon, fnv Val, args []Val, pos token.Pos) []Outcome {
	if cc.IsInvoke() {
		return e.invoke(fr, st, cc, fnv, args, pos)
	}
	switch callee := cc.Value.(type) {
	case *ssa.Builtin:
		return e.builtin(fr, st, callee, cc, args, pos)
	case *ssa.Function:
		return e.callStatic(fr, st, callee, args, nil, pos)
	default:
		f := fnv[0]
		if cl, ok := e.closures[f]; ok {
			return e.callStatic(fr, st, cl.fn, args, cl.binds, pos)
		}
		if f.IsConst() && f.C >= 0xF000000000000000 {
			i := int(f.C - 0xF000000000000000)
			if i < len(e.closFn) {
				return e.callStatic(fr, st, e.closFn[i], args, nil, pos)
			}
		}
		e.fail("call of unknown function value %s in %s", e.c.Show(f), fr.fn)
	}
	return nil
}

// invoke dispatches an interface method call over the closed world of implementers.
func (e *Exec) invoke(fr *Frame, st State, cc *ssa.CallCommon, recv Val, args []Val, pos token.Pos) []Outcome {
	c := e.c
	tag, word := e.peelIte(st, recv[0]), e.peelIte(st, recv[1])
	iface := cc.Value.Type().Underlying().(*types.Interface)
	name := cc.Method.Name()
	if nt, ok := cc.Value.Type().(*types.Named); ok && nt.Obj().Name() == "Socket" && nt.Obj().Pkg() != nil && strings.HasSuffix(nt.Obj().Pkg().Path(), "/knxnet") && e.rootFn != nil && e.rootFn.Pkg != nil && e.rootFn.Pkg.Pkg.Name() == "knx" {
		// clients of the socket (package knx) see it as environment
		st = e.oblige(st, fr.fn, "nopanic.nil", "", pos, c.Ne(tag, c.Const(64, 0)))
		return e.socketInvoke(fr, st, cc, Val{tag, word}, args, pos)
	}
	if strings.HasSuffix(cc.Value.Type().String(), "reflect.Type") {
		if r, ok := e.reflectInvoke(st, name, Val{tag, word}); ok {
			return r
		}
	}
	var cands []types.Type
	if tag.IsConst() {
		if tag.C == 0 {
			e.oblige(st, fr.fn, "nopanic.nil", "", pos, c.False)
			return nil
		}
		if e.P.typeOfTag(tag.C) == nil {
			e.fail("invoke on unknown tag")
		}
		cands = []types.Type{e.P.typeOfTag(tag.C)}
	} else {
		st = e.oblige(st, fr.fn, "nopanic.nil", "", pos, c.Ne(tag, c.Const(64, 0)))
		cands = e.P.implementers(iface)
		if alts := st.tagAlternatives(tag); alts != nil {
			var keep []types.Type
			for _, T := range cands {
				if alts[e.P.tag(T)] {
					keep = append(keep, T)
				}
			}
			cands = keep
		}
		if os.Getenv("KVC_DEBUG") != "" {
			fmt.Fprintf(os.Stderr, "symbolic invoke %s.%s in %s at %s: tag=%s\n", cc.Value.Type(), name, fr.fn, e.P.pos(pos), c.Show(tag))
		}
		if len(cands) == 0 {
			return e.externalInvoke(fr, st, cc, recv, args, pos)
		}
	}
	var outs []Outcome
	for _, T := range cands {
		s := st
		if !tag.IsConst() {
			s = s.branch(c.Eq(tag, c.Const(64, e.P.tag(T))))
			if s.pcFalse() {
				continue
			}
		}
		fn := e.P.method(T, name, nil)
		if fn == nil {
			e.fail("no method %s on %v", name, T)
		}
		var rv Val
		if pointerShaped(T) {
			rv = Val{word}
		} else {
			rv = e.loadFrom(s.h, word, T)
		}
		as := append([]Val{rv}, args...)
		outs = append(outs, e.callStatic(fr, s, fn, as, nil, pos)...)
	}
	return outs
}

func (e *Exec) inStack(fr *Frame, fn *ssa.Function) bool {
	n := 0
	for _, f := range e.stack {
		if f == fn {
			n++
		}
	}
	// transparent dispatchers may legitimately be re-entered (util.Unpack -> (*Info).Unpack ->
	// util.Unpack); genuine recursion is cut after three nested activations
	if ct := e.P.contracts.lookup(e.P, fn); ct != nil && ct.Inline {
		return n >= 3
	}
	return n >= 1
}

var envSocketMethods = map[string]bool{"Send": true, "Inbound": true, "Close": true, "LocalAddr": true, "Addr": true}

func (e *Exec) rootInKnx() bool {
	f := e.rootFn
	for f != nil && f.Parent() != nil {
		f = f.Parent()
	}
	return f != nil && f.Pkg != nil && f.Pkg.Pkg.Name() == "knx"
}

func (e *Exec) callStatic(fr *Frame, st State, fn *ssa.Function, args []Val, binds []Val, pos token.Pos) []Outcome {
	switch fn.Name() {
	case "verifAssert":
		// lemma obligation (ghost code under the verif build tag)
		st = e.oblige(st, fr.fn, "lemma", "", pos, args[0][0])
		return []Outcome{{st: st}}
	case "verifAssume":
		st = st.assume(args[0][0])
		if st.pcFalse() {
			return nil
		}
		return []Outcome{{st: st}}
	case "verifBytesEqual":
		c := e.c
		a, b := args[0], args[1]
		k := c.Bound("k", BV(64))
		body := c.Imp(c.Ult(k, a[1]), c.Eq(e.read(st.h[0], c.Add(a[0], k)), e.read(st.h[0], c.Add(b[0], k))))
		return []Outcome{{st: st, ret: Val{c.And(c.Eq(a[1], b[1]), c.Forall(k, body))}}}
	}
	if e.rootInKnx() && fn.Pkg != nil && fn.Pkg.Pkg.Name() == "knxnet" {
		name := fn.String()
		if r := fn.Signature.Recv(); r != nil && envSocketMethods[fn.Name()] && (strings.Contains(name, "TunnelSocket") || strings.Contains(name, "RouterSocket")) {
			// concrete sockets used by package knx: environment, same ghost log as knxnet.Socket
			c := e.c
			st = e.oblige(st, fr.fn, "nopanic.nil", "", pos, c.Ne(args[0][0], c.Const(64, 0)))
			cc := &ssa.CallCommon{Method: fn.Object().(*types.Func)}
			if fn.Name() == "Addr" {
				return []Outcome{{st: st, ret: Val{c.Apply("sock.addr", BV(64), args[0][0])}}}
			}
			return e.socketInvoke(fr, st, cc, Val{c.Const(64, e.P.tag(r.Type())), args[0][0]}, args[1:], pos)
		}
		switch fn.Name() {
		case "DialTunnelUDP", "DialTunnelTCP", "ListenRouterOnInterface", "ListenRouter":
			if r, ok := e.externalEnv(fr, st, fn, args, pos); ok {
				return r
			}
		}
	}
	if e.P.isRepoFunc(fn) || fn.Synthetic != "" && len(fn.Blocks) > 0 && e.P.isRepoFunc(fn) {
		ct := e.P.contracts.lookup(e.P, fn)
		if ct != nil && ct.Trusted {
			e.assumed["trusted contract: "+shortFn(fn.String())] = true
			return e.applyContract(fr, st, fn, ct, args, pos)
		}
		if ct != nil && ct.Pure && fn != e.rootFn && fn.Signature.Results().Len() == 1 && !e.inStack(fr, fn) {
			// pure function: all paths merged into one outcome (no path multiplication)
			env := &cenv{e: e, vars: map[string]cval{}, cur: st, old: st, pkg: e.pkgOf(fn), brkOld: st.brk, facts: new([]*Term)}
			r := env.pureCall(fn, args)
			st = e.useFacts(st, env)
			return []Outcome{{st: st, ret: r.v}}
		}
		if ct != nil && !ct.Inline && (!e.forceInline || hasLoopOrSelect(fn)) && fn != e.rootFn && ct.usable() &&
			(len(ct.Ensures) > 0 || fn.Signature.Results().Len() == 0) {
			e.viaCt[shortFn(fn.String())] = true
			return e.applyContract(fr, st, fn, ct, args, pos)
		}
		if e.inStack(fr, fn) {
			var names []string
			for _, f := range e.stack {
				names = append(names, shortFn(f.String()))
			}
			e.fail("recursive call of %s without contract (stack %v)", fn, names)
		}
		if len(fn.Blocks) == 0 {
			e.fail("repo function %s has no body", fn)
		}
		e.inlined[shortFn(fn.String())] = true
		e.stack = append(e.stack, fn)
		outs := e.execFn(fn, args, binds, st, fr.depth+1, fr)
		e.stack = e.stack[:len(e.stack)-1]
		return outs
	}
	if (strings.HasPrefix(fn.Synthetic, "wrapper") || strings.HasPrefix(fn.Synthetic, "bound")) && len(fn.Blocks) > 0 && !e.inStack(fr, fn) {
		// bound-method / promotion wrappers of foreign methods: run the wrapper itself
		e.stack = append(e.stack, fn)
		outs := e.execFn(fn, args, binds, st, fr.depth+1, fr)
		e.stack = e.stack[:len(e.stack)-1]
		return outs
	}
	return e.external(fr, st, fn, args, pos)
}

// ---------- builtins ----------

func (e *Exec) builtin(fr *Frame, st State, b *ssa.Builtin, cc *ssa.CallCommon, args []Val, pos token.Pos) []Outcome {
	c := e.c
	switch b.Name() {
	case "len":
		T := cc.Args[0].Type().Underlying()
		switch T.(type) {
		case *types.Slice, *types.Basic:
			return []Outcome{{st: st, ret: Val{args[0][1]}}}
		case *types.Map:
			if g := mapGlobalOf(cc.Args[0]); g != nil {
				_, ents := e.constMapFor(cc.Args[0], "len")
				return []Outcome{{st: st, ret: Val{c.Const(64, uint64(len(ents)))}}}
			}
			r := c.Fresh("len", BV(64))
			st = st.assume(c.Sle(c.Const(64, 0), r))
			return []Outcome{{st: st, ret: Val{r}}}
		case *types.Chan:
			r := c.Fresh("len", BV(64))
			st = st.assume(c.Sle(c.Const(64, 0), r))
			return []Outcome{{st: st, ret: Val{r}}}
		}
	case "cap":
		if _, ok := cc.Args[0].Type().Underlying().(*types.Slice); ok {
			return []Outcome{{st: st, ret: Val{args[0][2]}}}
		}
	case "copy":
		dst, src := args[0], args[1]
		var ET types.Type
		dT := cc.Args[0].Type().Underlying().(*types.Slice)
		ET = dT.Elem()
		sBase, sLen := src[0], src[1]
		n := c.Ite(c.Ult(dst[1], sLen), dst[1], sLen)
		st = e.copyElems(st, ET, dst[0], sBase, n)
		return []Outcome{{st: st, ret: Val{n}}}
	case "append":
		return e.appendOp(fr, st, cc, args, pos)
	case "close":
		return e.chanClose(fr, st, cc, args, pos)
	case "recover":
		return []Outcome{{st: st, ret: Val{c.Const(64, 0), c.Const(64, 0)}}}
	case "ssa:wrapnilchk":
		st = e.oblige(st, fr.fn, "nopanic.nil", "", pos, c.Ne(args[0][0], c.Const(64, 0)))
		return []Outcome{{st: st, ret: args[0]}}
	case "print", "println":
		return []Outcome{{st: st}}
	case "min", "max":
		if isInteger(cc.Args[0].Type()) {
			r := args[0][0]
			sg := isSigned(cc.Args[0].Type())
			for _, a := range args[1:] {
				var lt *Term
				if sg {
					lt = c.Slt(a[0], r)
				} else {
					lt = c.Ult(a[0], r)
				}
				if b.Name() == "max" {
					lt = c.Not(c.Or(lt, c.Eq(a[0], r)))
				}
				r = c.Ite(lt, a[0], r)
			}
			return []Outcome{{st: st, ret: Val{r}}}
		}
	}
	e.fail("builtin %s on %v", b.Name(), cc.Args[0].Type())
	return nil
}

// copyElems copies n elements of type ET from src to dst (memmove semantics).
func (e *Exec) copyElems(st State, ET types.Type, dst, src, n *Term) State {
	c := e.c
	sl := e.P.lay.slots(ET)
	used := [4]bool{}
	for _, k := range sl {
		used[k.heapIdx()] = true
	}
	cnt := c.Mul(n, c.Const(64, uint64(len(sl))))
	if cnt.IsConst() && cnt.C == 0 {
		return st
	}
	old := st.h
	for hi := range used {
		if used[hi] {
			st.h[hi] = st.h[hi].push(HeapLayer{kind: lCopy, addr: dst, n: cnt, src: old[hi], srcBase: src})
		}
	}
	return st
}

func (e *Exec) appendOp(fr *Frame, st State, cc *ssa.CallCommon, args []Val, pos token.Pos) []Outcome {
	c := e.c
	s, t := args[0], args[1]
	ST := cc.Args[0].Type().Underlying().(*types.Slice)
	ET := ST.Elem()
	es := e.elemSlots(ET)
	tBase, tLen := t[0], t[1]
	newLen := c.Add(s[1], tLen)
	fits := c.Ule(newLen, s[2])
	var outs []Outcome
	if r := addrRoot(s[0]); (e.regions[r] != nil && e.regions[r].fresh && !e.escaped[r]) || (s[0].IsConst() && s[0].C == 0) {
		// the backing array is private to this execution (never stored or passed on): whether
		// append grows it in place or moves it cannot be observed, so one outcome suffices
		ncap := c.Fresh("appcap", BV(64))
		s2 := st.assume(c.Ule(newLen, ncap))
		s2 = s2.assume(c.Ule(ncap, c.Const(64, 1<<41)))
		var a *Term
		s2, a = e.alloc(s2, c.Mul(ncap, c.Const(64, es)), "append")
		s2 = e.zeroRange(s2, ET, a, ncap)
		s2 = e.copyElems(s2, ET, a, s[0], s[1])
		s2 = e.copyElems(s2, ET, c.Add(a, c.Mul(s[1], c.Const(64, es))), tBase, tLen)
		return []Outcome{{st: s2, ret: Val{a, newLen, ncap}}}
	}
	// in place
	if s1 := st.branch(fits); !fits.IsFalse() && !s1.pcFalse() {
		s1 = e.copyElems(s1, ET, c.Add(s[0], c.Mul(s[1], c.Const(64, es))), tBase, tLen)
		outs = append(outs, Outcome{st: s1, ret: Val{s[0], newLen, s[2]}})
	}
	// reallocate
	if s2 := st.branch(c.Not(fits)); !fits.IsTrue() && !s2.pcFalse() {
		ncap := c.Fresh("appcap", BV(64))
		s2 = s2.assume(c.Ule(newLen, ncap))
		s2 = s2.assume(c.Ule(ncap, c.Const(64, 1<<41)))
		pre := s2
		var a *Term
		s2, a = e.alloc(s2, c.Mul(ncap, c.Const(64, es)), "append")
		s2 = e.zeroRange(s2, ET, a, ncap)
		s2 = e.copyElems(s2, ET, a, s[0], s[1])
		_ = pre
		s2 = e.copyElems(s2, ET, c.Add(a, c.Mul(s[1], c.Const(64, es))), tBase, tLen)
		outs = append(outs, Outcome{st: s2, ret: Val{a, newLen, ncap}})
	}
	return outs
}

// ---------- externals (assumed contracts, DESIGN §2.4.6) ----------

func (e *Exec) freshError(st State, what string) (State, Val) {
	c := e.c
	tag := c.Const(64, e.P.tag(errStringType))
	w := c.Fresh("err."+what, BV(64))
	st = st.assume(c.Ule(c.Const(64, 1), w))
	return st, Val{tag, w}
}

var errStringType = types.NewPointer(types.NewNamed(types.NewTypeName(token.NoPos, nil, "errorString", nil), types.NewStruct(nil, nil), nil))

func (e *Exec) freshString(st State, what string) (State, Val) {
	c := e.c
	n := c.Fresh("slen."+what, BV(64))
	st = st.assume(c.Ule(n, c.Const(64, 1<<20)))
	s2, a := e.alloc(st, n, "str."+what)
	arr := c.Fresh("sdata."+what, Sort{KArr, 8})
	s2.h[0] = s2.h[0].push(HeapLayer{kind: lHavoc, addr: a, n: n, arr: arr})
	return s2, Val{a, n}
}

func (e *Exec) external(fr *Frame, st State, fn *ssa.Function, args []Val, pos token.Pos) []Outcome {
	c := e.c
	name := fn.String()
	if e.initMode && (fn.Name() == "init" || strings.HasSuffix(name, ".init")) {
		return []Outcome{{st: st}}
	}
	if e.initMode {
		// initialisers of variables we do not track (encoders, decoders, ...): opaque results
		res := fn.Signature.Results()
		var ret Val
		for i := 0; i < res.Len(); i++ {
			ret = append(ret, e.freshVal(res.At(i).Type(), "init")...)
		}
		return []Outcome{{st: st, ret: ret}}
	}
	e.assumed["assumed contract: "+name] = true
	switch name {
	case "math.Float32bits", "math.Float64bits", "math.Float32frombits", "math.Float64frombits",
		"(encoding/binary.bigEndian).Uint16", "(encoding/binary.bigEndian).Uint32", "(encoding/binary.bigEndian).Uint64",
		"(encoding/binary.bigEndian).PutUint16", "(encoding/binary.bigEndian).PutUint32", "(encoding/binary.bigEndian).PutUint64":
		// modelled exactly
	default:
		e.abstractions++
	}
	switch name {
	case "errors.New":
		s, v := e.freshError(st, "new")
		return []Outcome{{st: s, ret: v}}
	case "fmt.Errorf":
		var outs []Outcome
		for _, s0 := range e.fmtCallsMethods(fr, st, args[0], args[1], true, pos) {
			s, v := e.freshError(s0, "new")
			outs = append(outs, Outcome{st: s, ret: v})
		}
		return outs
	case "fmt.Sprintf", "fmt.Sprint":
		var outs []Outcome
		var pre []State
		if name == "fmt.Sprintf" {
			pre = e.fmtCallsMethods(fr, st, args[0], args[1], true, pos)
		} else {
			pre = e.fmtCallsMethods(fr, st, nil, args[0], false, pos)
		}
		for _, s0 := range pre {
			s, v := e.freshString(s0, "sprintf")
			if name == "fmt.Sprintf" && len(args) == 2 {
				s = e.textSprintf(s, v, args[0], args[1])
			}
			outs = append(outs, Outcome{st: s, ret: v})
		}
		return outs
	case "strings.Split":
		if s2, v, ok := e.textSplit(st, args[0], args[1]); ok {
			return []Outcome{{st: s2, ret: v}}
		}
	case "strconv.Atoi":
		return e.textAtoi(st, args[0])
	case "bytes.TrimRight":
		// returns a prefix of the argument (same base, shorter or equal length)
		s := args[0]
		n := c.Fresh("trim", BV(64))
		st = st.assume(c.Ule(n, s[1]))
		// trimmed bytes are exactly the trailing cutset bytes; for a one-byte cutset
		// the last kept byte is not in the cutset (used by C02 only)
		return []Outcome{{st: st, ret: Val{s[0], n, s[2]}}}
	case "(*golang.org/x/text/encoding.Decoder).Bytes", "(*golang.org/x/text/encoding.Encoder).Bytes":
		// fresh slice or error; contents unconstrained here (refined by charmap contract)
		// deterministic functions of their argument: the symbols keep their names in the
		// second run of a relational check (prefix in.$ext)
		n := c.Fresh("in.$ext.enc.len", BV(64))
		st = st.assume(c.Ule(n, c.Const(64, 1<<30)))
		s2, a := e.alloc(st, n, "enc")
		arr := c.Fresh("in.$ext.enc.data", Sort{KArr, 8})
		s2.h[0] = s2.h[0].push(HeapLayer{kind: lHavoc, addr: a, n: n, arr: arr})
		okc := c.Fresh("in.$ext.enc.ok", Bool)
		s2 = s2.branch(okc)
		okOut := Outcome{st: s2, ret: Val{a, n, n, c.Const(64, 0), c.Const(64, 0)}}
		s3, ev := e.freshError(st.branch(c.Not(okc)), "enc")
		errOut := Outcome{st: s3, ret: Val{c.Const(64, 0), c.Const(64, 0), c.Const(64, 0), ev[0], ev[1]}}
		return []Outcome{okOut, errOut}
	case "math.Float32bits", "math.Float64bits":
		return []Outcome{{st: st, ret: Val{e.fpToBits(args[0][0])}}}
	case "math.Float32frombits", "math.Float64frombits":
		return []Outcome{{st: st, ret: Val{e.fpFromBits(args[0][0])}}}
	case "(encoding/binary.bigEndian).Uint16", "(encoding/binary.bigEndian).Uint32", "(encoding/binary.bigEndian).Uint64":
		n := map[string]int{"Uint16": 2, "Uint32": 4, "Uint64": 8}[fn.Name()]
		b := args[1]
		st = e.oblige(st, fr.fn, "nopanic.index", "", pos, c.Ule(c.Const(64, uint64(n)), b[1]))
		r := c.Const(n*8, 0)
		for i := 0; i < n; i++ {
			by := e.read(st.h[0], c.Add(b[0], c.Const(64, uint64(i))))
			r = c.BvOr(r, c.Shl(c.Zext(by, n*8), c.Const(n*8, uint64(8*(n-1-i)))))
		}
		return []Outcome{{st: st, ret: Val{r}}}
	case "(encoding/binary.bigEndian).PutUint16", "(encoding/binary.bigEndian).PutUint32", "(encoding/binary.bigEndian).PutUint64":
		n := map[string]int{"PutUint16": 2, "PutUint32": 4, "PutUint64": 8}[fn.Name()]
		b, v := args[1], args[2][0]
		st = e.oblige(st, fr.fn, "nopanic.index", "", pos, c.Ule(c.Const(64, uint64(n)), b[1]))
		for i := 0; i < n; i++ {
			by := c.Extract(8*(n-1-i)+7, 8*(n-1-i), v)
			st.h[0] = e.store(st.h[0], c.Add(b[0], c.Const(64, uint64(i))), by)
		}
		return []Outcome{{st: st}}
	}
	if r, ok := e.externalEnv(fr, st, fn, args, pos); ok {
		return r
	}
	if r, ok := e.reflectExternal(fr, st, name, args); ok {
		return r
	}
	if strings.HasPrefix(name, "(*sync.") || strings.HasPrefix(name, "sync.") {
		e.fail("sync primitive %s outside environment mode", name)
	}
	e.fail("external function %s has no assumed contract", name)
	return nil
}

func (e *Exec) externalInvoke(fr *Frame, st State, cc *ssa.CallCommon, recv Val, args []Val, pos token.Pos) []Outcome {
	if r, ok := e.externalInvokeEnv(fr, st, cc, recv, args, pos); ok {
		return r
	}
	if strings.HasSuffix(cc.Value.Type().String(), "reflect.Type") {
		if r, ok := e.reflectInvoke(st, cc.Method.Name(), recv); ok {
			return r
		}
	}
	e.fail("invoke of %s on foreign interface %v has no assumed contract", cc.Method.Name(), cc.Value.Type())
	return nil
}

func (e *Exec) goStmt(fr *Frame, st State, g *ssa.Go, fnv Val, args []Val) []Outcome {
	return e.goEnv(fr, st, g, fnv, args)
}

var _ = fmt.Sprintf

// peelIte resolves ite terms whose condition is decided by the path condition.
func (e *Exec) peelIte(st State, t *Term) *Term {
	for t.Op == OIte {
		v, ok := e.knownCond(st, t.Args[0])
		if !ok {
			break
		}
		if v {
			t = t.Args[1]
		} else {
			t = t.Args[2]
		}
	}
	return t
}

// fmtCallsMethods: fmt calls the Error() or String() method of an operand printed with a verb
// that is valid for strings (%v %s %q %x %X). For operands whose dynamic type is a type of this
// module the method is executed (inlined, or through its contract); operands of unknown
// dynamic type are assumed to format without effect. Returns the states after those calls.
func (e *Exec) fmtCallsMethods(fr *Frame, st State, format Val, argv Val, hasFormat bool, pos token.Pos) []State {
	c := e.c
	if len(argv) < 2 || !argv[1].IsConst() || argv[1].C > 16 {
		return []State{st}
	}
	n := int(argv[1].C)
	verbs := make([]byte, n)
	for i := range verbs {
		verbs[i] = 'v'
	}
	if hasFormat {
		if f, ok := e.constOfString(format); ok {
			var vs []byte
			for i := 0; i < len(f); i++ {
				if f[i] != '%' {
					continue
				}
				i++
				for i < len(f) && strings.IndexByte("+-# 0123456789.*[]", f[i]) >= 0 {
					i++
				}
				if i < len(f) && f[i] != '%' {
					vs = append(vs, f[i])
				}
			}
			if len(vs) == n {
				verbs = vs
			}
		}
	}
	states := []State{st}
	for k := 0; k < n; k++ {
		if strings.IndexByte("vsqxX", verbs[k]) < 0 {
			continue
		}
		var next []State
		for _, s0 := range states {
			tag := e.peelIte(s0, e.read(s0.h[3], c.Add(argv[0], c.Const(64, uint64(2*k)))))
			word := e.read(s0.h[3], c.Add(argv[0], c.Const(64, uint64(2*k+1))))
			if !tag.IsConst() || tag.C == 0 {
				e.assumed["fmt: String()/Error() of operands whose dynamic type is not known statically are assumed to return"] = true
				next = append(next, s0)
				continue
			}
			T := e.P.typeOfTag(tag.C)
			var m *ssa.Function
			if T != nil {
				ms := e.P.prog.MethodSets.MethodSet(T)
				for _, name := range []string{"Error", "String"} {
					if sel := ms.Lookup(nil, name); sel != nil {
						if sig, ok := sel.Type().(*types.Signature); ok && sig.Params().Len() == 0 && sig.Results().Len() == 1 {
							m = e.P.prog.MethodValue(sel)
							break
						}
					}
				}
			}
			if m == nil || !e.P.isRepoFunc(m) && !(m.Synthetic != "" && len(m.Blocks) > 0) {
				next = append(next, s0)
				continue
			}
			var recv Val
			if pointerShaped(T) {
				recv = Val{word}
			} else {
				recv = e.loadFrom(s0.h, word, T)
			}
			for _, o := range e.callStatic(fr, s0, m, []Val{recv}, nil, pos) {
				next = append(next, o.st)
			}
		}
		states = next
	}
	return states
}

package main

// Evaluation of contract expressions to SMT terms over a (cur, old) pair of states.

import (
	"fmt"
	"go/constant"
	"go/types"
	"math/big"
	"strings"

	"golang.org/x/tools/go/ssa"
)

type cval struct {
	v     Val
	T     types.Type // nil for untyped constants
	k     *big.Int   // untyped integer constant
	addr  *Term      // address of the storage this value was read from (lvalues)
	fk    *float64   // untyped float constant
	isNil bool
	ty    types.Type // value denotes a type (typeis argument / conversion head)
}

type cenv struct {
	e      *Exec
	vars   map[string]cval
	cur    State
	old    State
	pkg    *types.Package
	brkOld *Term // for fresh(): allocation frontier at entry
	depth  int
	where  string
	facts  *[]*Term
	prev   *State // state at the loop head (step clauses)
}

// ld loads a typed value from the current heap and records the Go type invariants of
// what it read (well-formed slice headers, allocated pointers) as side facts.
func (env *cenv) ld(a *Term, T types.Type) Val {
	v := env.e.loadFrom(env.cur.h, a, T)
	if env.facts != nil {
		hb := false
		for _, t := range v {
			if t.hb {
				hb = true
			}
		}
		if !hb {
			var st State
			st.brk = env.cur.brk
			st = env.e.assumeValid(st, T, v, false)
			*env.facts = append(*env.facts, st.pcList()...)
		}
	}
	return v
}

type cerr struct{ msg string }

func (env *cenv) errf(f string, a ...interface{}) {
	panic(cerr{env.where + ": " + fmt.Sprintf(f, a...)})
}

var (
	tInt  = types.Typ[types.Int]
	tUint = types.Typ[types.Uint]
	tBool = types.Typ[types.Bool]
	tByte = types.Typ[types.Uint8]
)

func (env *cenv) child() *cenv {
	n := *env
	n.vars = make(map[string]cval, len(env.vars)+2)
	for k, v := range env.vars {
		n.vars[k] = v
	}
	return &n
}

// evalBool evaluates x to a Bool term.
func (env *cenv) evalBool(x Expr) *Term {
	v := env.eval(x)
	if v.T == nil || !isBoolean(v.T) {
		env.errf("boolean expected")
	}
	return v.v[0]
}

func (env *cenv) constOf(k *big.Int, T types.Type) cval {
	w := intWidth(T)
	var u uint64
	if k.Sign() < 0 {
		u = uint64(k.Int64())
	} else {
		u = k.Uint64()
	}
	return cval{v: Val{env.e.c.Const(w, u)}, T: T}
}

// unify converts untyped constants to the other operand's type.
func (env *cenv) unify(a, b cval) (cval, cval) {
	// untyped numeric constants against float operands
	if b.T != nil && isFloat(b.T) {
		if a.fk != nil {
			a = env.e.fpConst(*a.fk, b.T)
		} else if a.k != nil {
			a = env.e.fpConstFromInt(a.k, b.T)
		}
	}
	if a.T != nil && isFloat(a.T) {
		if b.fk != nil {
			b = env.e.fpConst(*b.fk, a.T)
		} else if b.k != nil {
			b = env.e.fpConstFromInt(b.k, a.T)
		}
	}
	if a.fk != nil && b.fk != nil {
		return env.e.fpConst(*a.fk, types.Typ[types.Float64]), env.e.fpConst(*b.fk, types.Typ[types.Float64])
	}
	if a.k != nil && b.k == nil && b.T != nil && isInteger(b.T) {
		a = env.constOf(a.k, b.T)
	}
	if b.k != nil && a.k == nil && a.T != nil && isInteger(a.T) {
		b = env.constOf(b.k, a.T)
	}
	if a.k != nil && b.k != nil {
		// both untyped: default int
		return env.constOf(a.k, tInt), env.constOf(b.k, tInt)
	}
	return a, b
}

func (env *cenv) resolveType(name string) types.Type {
	ptr := 0
	for strings.HasPrefix(name, "*") {
		name = name[1:]
		ptr++
	}
	sl := false
	if strings.HasPrefix(name, "[]") {
		sl = true
		name = name[2:]
	}
	var T types.Type
	if i := strings.Index(name, "."); i >= 0 {
		if sp, ok := env.e.P.ssaPkgs[name[:i]]; ok {
			if o := sp.Pkg.Scope().Lookup(name[i+1:]); o != nil {
				if tn, ok := o.(*types.TypeName); ok {
					T = tn.Type()
				}
			}
		}
	} else {
		if o := types.Universe.Lookup(name); o != nil {
			if tn, ok := o.(*types.TypeName); ok {
				T = tn.Type()
			}
		}
		if T == nil && env.pkg != nil {
			if o := env.pkg.Scope().Lookup(name); o != nil {
				if tn, ok := o.(*types.TypeName); ok {
					T = tn.Type()
				}
			}
		}
	}
	if T == nil {
		return nil
	}
	if sl {
		T = types.NewSlice(T)
	}
	for ; ptr > 0; ptr-- {
		T = types.NewPointer(T)
	}
	return T
}

func (env *cenv) lookupPkgObj(pkgShort, name string) types.Object {
	if sp, ok := env.e.P.ssaPkgs[pkgShort]; ok {
		return sp.Pkg.Scope().Lookup(name)
	}
	return nil
}

func (env *cenv) objValue(o types.Object) cval {
	c := env.e.c
	switch t := o.(type) {
	case *types.Const:
		if t.Val().Kind() == constant.Bool {
			return cval{v: Val{c.BoolC(constant.BoolVal(t.Val()))}, T: tBool}
		}
		if t.Val().Kind() == constant.Int {
			k := new(big.Int)
			k.SetString(t.Val().ExactString(), 10)
			if b, ok := t.Type().Underlying().(*types.Basic); ok && b.Info()&types.IsUntyped == 0 {
				return env.constOf(k, t.Type())
			}
			return cval{k: k}
		}
		if t.Val().Kind() == constant.String {
			return cval{v: env.e.strConst(constant.StringVal(t.Val())), T: types.Typ[types.String]}
		}
	case *types.Var:
		// package-level variable
		for _, sp := range env.e.P.ssaPkgs {
			if sp.Pkg == t.Pkg() {
				if g, ok := sp.Members[t.Name()].(*ssa.Global); ok {
					a := env.e.globalAddr(g)
					return cval{v: env.ld(a, t.Type()), T: t.Type(), addr: a}
				}
			}
		}
	case *types.TypeName:
		return cval{ty: t.Type()}
	}
	env.errf("cannot evaluate object %v", o)
	return cval{}
}

func (env *cenv) eval(x Expr) cval {
	e := env.e
	c := e.c
	switch t := x.(type) {
	case ELit:
		return cval{k: t.V}
	case EBool:
		return cval{v: Val{c.BoolC(t.V)}, T: tBool}
	case EFloat:
		f := t.V
		return cval{fk: &f}
	case EStr:
		return cval{v: e.strConst(t.V), T: types.Typ[types.String]}
	case EType:
		T := env.resolveType(t.T)
		if T == nil {
			env.errf("unknown type %s", t.T)
		}
		return cval{ty: T}
	case EIdent:
		if v, ok := env.vars[t.Name]; ok {
			if v.addr != nil && v.v == nil {
				return cval{v: env.ld(v.addr, v.T), T: v.T, addr: v.addr}
			}
			return v
		}
		if t.Name == "nil" {
			return cval{isNil: true}
		}
		if g := env.cur.getGhost(t.Name); g != nil {
			return cval{v: Val{g}, T: ghostType(g)}
		}
		if T := env.resolveType(t.Name); T != nil {
			return cval{ty: T}
		}
		if env.pkg != nil {
			if o := env.pkg.Scope().Lookup(t.Name); o != nil {
				return env.objValue(o)
			}
		}
		env.errf("unknown identifier %s", t.Name)
	case ESel:
		// package-qualified name?
		if id, ok := t.X.(EIdent); ok {
			if _, isVar := env.vars[id.Name]; !isVar {
				if o := env.lookupPkgObj(id.Name, t.Sel); o != nil {
					return env.objValue(o)
				}
			}
		}
		xv := env.eval(t.X)
		return env.selectField(xv, t.Sel)
	case EUnary:
		switch t.Op {
		case "!":
			return cval{v: Val{c.Not(env.evalBool(t.X))}, T: tBool}
		case "-":
			v := env.eval(t.X)
			if v.k != nil {
				return cval{k: new(big.Int).Neg(v.k)}
			}
			if v.fk != nil {
				f := -*v.fk
				return cval{fk: &f}
			}
			if isFloat(v.T) {
				return cval{v: Val{e.fpNeg(v.v[0], v.T)}, T: v.T}
			}
			return cval{v: Val{c.Neg(v.v[0])}, T: v.T}
		case "^":
			v := env.eval(t.X)
			if v.k != nil {
				return cval{k: new(big.Int).Not(v.k)}
			}
			return cval{v: Val{c.BvNot(v.v[0])}, T: v.T}
		case "*":
			v := env.eval(t.X)
			pt, ok := v.T.Underlying().(*types.Pointer)
			if !ok {
				env.errf("dereference of non-pointer")
			}
			return cval{v: env.ld(v.v[0], pt.Elem()), T: pt.Elem(), addr: v.v[0]}
		case "&":
			v := env.eval(t.X)
			if v.addr == nil {
				env.errf("& of non-addressable")
			}
			return cval{v: Val{v.addr}, T: types.NewPointer(v.T)}
		}
	case EBinary:
		return env.evalBinary(t)
	case ECond:
		cnd := env.evalBool(t.C)
		a, b := env.unify(env.eval(t.A), env.eval(t.B))
		out := make(Val, len(a.v))
		for i := range a.v {
			out[i] = c.Ite(cnd, a.v[i], b.v[i])
		}
		return cval{v: out, T: a.T}
	case EIndex:
		xv := env.eval(t.X)
		iv := env.eval(t.I)
		idx := env.toInt64(iv)
		switch ut := xv.T.Underlying().(type) {
		case *types.Slice:
			es := e.elemSlots(ut.Elem())
			a := c.Add(xv.v[0], c.Mul(idx, c.Const(64, es)))
			return cval{v: env.ld(a, ut.Elem()), T: ut.Elem(), addr: a}
		case *types.Array:
			es := int(e.elemSlots(ut.Elem()))
			if xv.addr != nil {
				a := c.Add(xv.addr, c.Mul(idx, c.Const(64, uint64(es))))
				return cval{v: env.ld(a, ut.Elem()), T: ut.Elem(), addr: a}
			}
			if idx.IsConst() {
				o := int(idx.C) * es
				return cval{v: xv.v[o : o+es], T: ut.Elem()}
			}
			out := make(Val, es)
			for s := 0; s < es; s++ {
				r := xv.v[s]
				for k := int(ut.Len()) - 1; k >= 1; k-- {
					r = c.Ite(c.Eq(idx, c.Const(64, uint64(k))), xv.v[k*es+s], r)
				}
				out[s] = r
			}
			return cval{v: out, T: ut.Elem()}
		case *types.Basic:
			a := c.Add(xv.v[0], idx)
			return cval{v: Val{e.read(env.cur.h[0], a)}, T: tByte}
		case *types.Pointer:
			if at, ok := ut.Elem().Underlying().(*types.Array); ok {
				es := e.elemSlots(at.Elem())
				a := c.Add(xv.v[0], c.Mul(idx, c.Const(64, es)))
				return cval{v: env.ld(a, at.Elem()), T: at.Elem(), addr: a}
			}
		}
		env.errf("cannot index %v", xv.T)
	case ESlice:
		xv := env.eval(t.X)
		st, ok := xv.T.Underlying().(*types.Slice)
		if !ok {
			if at, ok2 := xv.T.Underlying().(*types.Array); ok2 && xv.addr != nil {
				n := c.Const(64, uint64(at.Len()))
				xv = cval{v: Val{xv.addr, n, n}, T: types.NewSlice(at.Elem())}
				st = xv.T.(*types.Slice)
			} else {
				env.errf("cannot slice %v", xv.T)
			}
		}
		lo := c.Const(64, 0)
		hi := xv.v[1]
		if t.Lo != nil {
			lo = env.toInt64(env.eval(t.Lo))
		}
		if t.Hi != nil {
			hi = env.toInt64(env.eval(t.Hi))
		}
		es := e.elemSlots(st.Elem())
		return cval{v: Val{c.Add(xv.v[0], c.Mul(lo, c.Const(64, es))), c.Sub(hi, lo), c.Sub(xv.v[2], lo)}, T: xv.T}
	case EAssert:
		xv := env.eval(t.X)
		T := env.resolveType(t.T)
		if T == nil {
			env.errf("unknown type %s", t.T)
		}
		if pointerShaped(T) {
			return cval{v: Val{xv.v[1]}, T: T}
		}
		return cval{v: env.ld(xv.v[1], T), T: T, addr: xv.v[1]}
	case EQuant:
		n := env.child()
		k := c.Bound(t.Var, BV(64))
		n.vars[t.Var] = cval{v: Val{k}, T: tInt}
		lo := env.toInt64(env.eval(t.Lo))
		hi := env.toInt64(env.eval(t.Hi))
		if lo.IsConst() && hi.IsConst() && int64(hi.C)-int64(lo.C) <= 256 && int64(hi.C)-int64(lo.C) >= 0 {
			// constant range: expand to a ground conjunction / disjunction
			var parts []*Term
			for i := int64(lo.C); i < int64(hi.C); i++ {
				m := env.child()
				m.vars[t.Var] = cval{k: big.NewInt(i)}
				parts = append(parts, m.evalBool(t.Body))
			}
			if t.Exists {
				return cval{v: Val{c.Or(parts...)}, T: tBool}
			}
			return cval{v: Val{c.And(parts...)}, T: tBool}
		}
		rng := c.And(c.Sle(lo, k), c.Slt(k, hi))
		body := n.evalBool(t.Body)
		if t.Exists {
			return cval{v: Val{c.Exists(k, c.And(rng, body))}, T: tBool}
		}
		return cval{v: Val{c.Forall(k, c.Imp(rng, body))}, T: tBool}
	case ECall:
		return env.evalCall(t)
	}
	env.errf("cannot evaluate %T", x)
	return cval{}
}

func ghostType(g *Term) types.Type {
	if g.S.K == KBool {
		return tBool
	}
	switch g.S.W {
	case 8:
		return tByte
	case 16:
		return types.Typ[types.Uint16]
	case 32:
		return types.Typ[types.Uint32]
	}
	return tInt
}

func (env *cenv) toInt64(v cval) *Term {
	if v.k != nil {
		return env.constOf(v.k, tInt).v[0]
	}
	if v.T == nil || !isInteger(v.T) {
		env.errf("integer expected")
	}
	return env.e.ext(v.v[0], v.T, 64)
}

func (env *cenv) selectField(xv cval, sel string) cval {
	e := env.e
	c := e.c
	T := xv.T
	if T == nil {
		env.errf("selector %s on untyped value", sel)
	}
	// automatic dereference
	if pt, ok := T.Underlying().(*types.Pointer); ok {
		xv = cval{v: nil, T: pt.Elem(), addr: xv.v[0]}
		T = pt.Elem()
	}
	obj, index, _ := types.LookupFieldOrMethod(T, true, env.pkg, sel)
	if obj == nil {
		// unexported field of another package
		for _, sp := range e.P.ssaPkgs {
			if o, ix, _ := types.LookupFieldOrMethod(T, true, sp.Pkg, sel); o != nil {
				obj, index = o, ix
				break
			}
		}
	}
	fv, ok := obj.(*types.Var)
	if !ok {
		env.errf("no field %s in %v", sel, T)
	}
	_ = fv
	cur := xv
	curT := T
	for _, ix := range index {
		// embedded pointer hop
		if pt, ok := curT.Underlying().(*types.Pointer); ok {
			var pv *Term
			if cur.v != nil {
				pv = cur.v[0]
			} else {
				pv = env.ld(cur.addr, curT)[0]
			}
			cur = cval{addr: pv, T: pt.Elem()}
			curT = pt.Elem()
		}
		st := curT.Underlying().(*types.Struct)
		off := e.P.lay.fieldOffset(st, ix)
		n := e.P.lay.nslots(st.Field(ix).Type())
		FT := st.Field(ix).Type()
		if cur.addr != nil {
			cur = cval{addr: c.Add(cur.addr, c.Const(64, uint64(off))), T: FT}
		} else {
			cur = cval{v: cur.v[off : off+n], T: FT}
		}
		curT = FT
	}
	if cur.v == nil {
		cur.v = env.ld(cur.addr, cur.T)
	}
	return cur
}

func (env *cenv) evalBinary(t EBinary) cval {
	c := env.e.c
	switch t.Op {
	case "==>":
		return cval{v: Val{c.Imp(env.evalBool(t.X), env.evalBool(t.Y))}, T: tBool}
	case "<==>":
		return cval{v: Val{c.Eq(env.evalBool(t.X), env.evalBool(t.Y))}, T: tBool}
	case "&&":
		return cval{v: Val{c.And(env.evalBool(t.X), env.evalBool(t.Y))}, T: tBool}
	case "||":
		return cval{v: Val{c.Or(env.evalBool(t.X), env.evalBool(t.Y))}, T: tBool}
	}
	a := env.eval(t.X)
	b := env.eval(t.Y)
	// nil comparisons
	if a.isNil || b.isNil {
		if a.isNil {
			a, b = b, a
		}
		var z *Term
		if b.isNil && a.isNil {
			z = c.True
		} else {
			z = c.Eq(a.v[0], c.Const(64, 0))
		}
		if t.Op == "==" {
			return cval{v: Val{z}, T: tBool}
		}
		if t.Op == "!=" {
			return cval{v: Val{c.Not(z)}, T: tBool}
		}
		env.errf("bad nil operation")
	}
	if t.Op == "<<" || t.Op == ">>" {
		if a.k != nil && b.k != nil {
			if t.Op == "<<" {
				return cval{k: new(big.Int).Lsh(a.k, uint(b.k.Uint64()))}
			}
			return cval{k: new(big.Int).Rsh(a.k, uint(b.k.Uint64()))}
		}
		if a.k != nil {
			a = env.constOf(a.k, tInt)
		}
		var cnt *Term
		if b.k != nil {
			cnt = c.Const(a.v[0].S.W, b.k.Uint64())
		} else {
			cnt = env.e.shiftCount(b.v[0], b.T, a.v[0].S.W)
		}
		if t.Op == "<<" {
			return cval{v: Val{c.Shl(a.v[0], cnt)}, T: a.T}
		}
		if isSigned(a.T) {
			return cval{v: Val{c.Ashr(a.v[0], cnt)}, T: a.T}
		}
		return cval{v: Val{c.Lshr(a.v[0], cnt)}, T: a.T}
	}
	if a.k != nil && b.k != nil {
		r := new(big.Int)
		switch t.Op {
		case "+":
			return cval{k: r.Add(a.k, b.k)}
		case "-":
			return cval{k: r.Sub(a.k, b.k)}
		case "*":
			return cval{k: r.Mul(a.k, b.k)}
		case "/":
			return cval{k: r.Quo(a.k, b.k)}
		case "%":
			return cval{k: r.Rem(a.k, b.k)}
		case "&":
			return cval{k: r.And(a.k, b.k)}
		case "|":
			return cval{k: r.Or(a.k, b.k)}
		case "^":
			return cval{k: r.Xor(a.k, b.k)}
		}
		cmp := a.k.Cmp(b.k)
		var bv bool
		switch t.Op {
		case "==":
			bv = cmp == 0
		case "!=":
			bv = cmp != 0
		case "<":
			bv = cmp < 0
		case "<=":
			bv = cmp <= 0
		case ">":
			bv = cmp > 0
		case ">=":
			bv = cmp >= 0
		}
		return cval{v: Val{c.BoolC(bv)}, T: tBool}
	}
	a, b = env.unify(a, b)
	if a.T == nil || b.T == nil {
		env.errf("untyped operand in %s", t.Op)
	}
	// string against a constant: by content
	if (t.Op == "==" || t.Op == "!=") && isString(a.T) && isString(b.T) {
		var eq *Term
		if k, ok := env.e.constOfString(b.v); ok {
			eq = env.e.strEqConst(env.cur, a.v, k)
		} else if k, ok := env.e.constOfString(a.v); ok {
			eq = env.e.strEqConst(env.cur, b.v, k)
		}
		if eq != nil {
			if t.Op == "!=" {
				eq = c.Not(eq)
			}
			return cval{v: Val{eq}, T: tBool}
		}
	}
	// non-integer equality (bool, pointers, interfaces, structs)
	if !isInteger(a.T) {
		if t.Op == "==" || t.Op == "!=" {
			if len(a.v) != len(b.v) {
				env.errf("comparison of values of different shape (%v vs %v)", a.T, b.T)
			}
			var cs []*Term
			for i := range a.v {
				cs = append(cs, c.Eq(a.v[i], b.v[i]))
			}
			eq := c.And(cs...)
			if t.Op == "!=" {
				eq = c.Not(eq)
			}
			return cval{v: Val{eq}, T: tBool}
		}
		if isFloat(a.T) {
			return env.e.fpContractBin(env, t.Op, a, b)
		}
		env.errf("operator %s on %v", t.Op, a.T)
	}
	if a.v[0].S != b.v[0].S {
		env.errf("operands of %s have different types %v and %v", t.Op, a.T, b.T)
	}
	x, y := a.v[0], b.v[0]
	sg := isSigned(a.T)
	T := a.T
	switch t.Op {
	case "+":
		return cval{v: Val{c.Add(x, y)}, T: T}
	case "-":
		return cval{v: Val{c.Sub(x, y)}, T: T}
	case "*":
		return cval{v: Val{c.Mul(x, y)}, T: T}
	case "/":
		if sg {
			return cval{v: Val{c.Sdiv(x, y)}, T: T}
		}
		return cval{v: Val{c.Udiv(x, y)}, T: T}
	case "%":
		if sg {
			return cval{v: Val{c.Srem(x, y)}, T: T}
		}
		return cval{v: Val{c.Urem(x, y)}, T: T}
	case "&":
		return cval{v: Val{c.BvAnd(x, y)}, T: T}
	case "|":
		return cval{v: Val{c.BvOr(x, y)}, T: T}
	case "^":
		return cval{v: Val{c.BvXor(x, y)}, T: T}
	case "&^":
		return cval{v: Val{c.BvAnd(x, c.BvNot(y))}, T: T}
	case "==":
		return cval{v: Val{c.Eq(x, y)}, T: tBool}
	case "!=":
		return cval{v: Val{c.Ne(x, y)}, T: tBool}
	case "<":
		if sg {
			return cval{v: Val{c.Slt(x, y)}, T: tBool}
		}
		return cval{v: Val{c.Ult(x, y)}, T: tBool}
	case "<=":
		if sg {
			return cval{v: Val{c.Sle(x, y)}, T: tBool}
		}
		return cval{v: Val{c.Ule(x, y)}, T: tBool}
	case ">":
		if sg {
			return cval{v: Val{c.Sgt(x, y)}, T: tBool}
		}
		return cval{v: Val{c.Ugt(x, y)}, T: tBool}
	case ">=":
		if sg {
			return cval{v: Val{c.Sge(x, y)}, T: tBool}
		}
		return cval{v: Val{c.Uge(x, y)}, T: tBool}
	}
	env.errf("unknown operator %s", t.Op)
	return cval{}
}

func (env *cenv) convertTo(v cval, T types.Type) cval {
	e := env.e
	if v.fk != nil {
		if isFloat(T) {
			return e.fpConst(*v.fk, T)
		}
		env.errf("cannot convert float constant to %v", T)
	}
	if v.k != nil {
		if isInteger(T) {
			return env.constOf(v.k, T)
		}
		if isFloat(T) {
			return e.fpConstFromInt(v.k, T)
		}
		env.errf("cannot convert constant to %v", T)
	}
	if v.isNil {
		return cval{v: e.zeroVal(T), T: T}
	}
	if isInteger(T) && isInteger(v.T) {
		return cval{v: Val{e.ext(v.v[0], v.T, intWidth(T))}, T: T}
	}
	if isFloat(T) || isFloat(v.T) {
		st := env.cur
		r := e.fpConvert(&st, v.v[0], v.T, T)
		return cval{v: Val{r}, T: T}
	}
	if types.Identical(T.Underlying(), v.T.Underlying()) {
		return cval{v: v.v, T: T, addr: v.addr}
	}
	if _, ok := T.Underlying().(*types.Pointer); ok {
		if _, ok := v.T.Underlying().(*types.Pointer); ok {
			return cval{v: v.v, T: T}
		}
	}
	env.errf("cannot convert %v to %v", v.T, T)
	return cval{}
}

func (env *cenv) evalCall(t ECall) cval {
	e := env.e
	c := e.c
	// conversion with explicit type head
	if ty, ok := t.Fun.(EType); ok {
		T := env.resolveType(ty.T)
		if T == nil {
			env.errf("unknown type %s", ty.T)
		}
		return env.convertTo(env.eval(t.Args[0]), T)
	}
	name := ""
	switch f := t.Fun.(type) {
	case EIdent:
		name = f.Name
	case ESel:
		if id, ok := f.X.(EIdent); ok {
			name = id.Name + "." + f.Sel
		}
	}
	switch name {
	case "len", "cap":
		v := env.eval(t.Args[0])
		switch v.T.Underlying().(type) {
		case *types.Slice:
			if name == "len" {
				return cval{v: Val{v.v[1]}, T: tInt}
			}
			return cval{v: Val{v.v[2]}, T: tInt}
		case *types.Basic:
			return cval{v: Val{v.v[1]}, T: tInt}
		case *types.Array:
			return cval{k: big.NewInt(v.T.Underlying().(*types.Array).Len())}
		}
		env.errf("len of %v", v.T)
	case "old":
		n := *env
		n.cur = env.old
		return n.eval(t.Args[0])
	case "prev":
		if env.prev == nil {
			env.errf("prev() is only meaningful in a loop step clause")
		}
		n := *env
		n.cur = *env.prev
		return n.eval(t.Args[0])
	case "min", "max":
		a, b := env.unify(env.eval(t.Args[0]), env.eval(t.Args[1]))
		var lt *Term
		if isSigned(a.T) {
			lt = c.Slt(a.v[0], b.v[0])
		} else {
			lt = c.Ult(a.v[0], b.v[0])
		}
		if name == "max" {
			lt = c.Not(lt)
		}
		return cval{v: Val{c.Ite(lt, a.v[0], b.v[0])}, T: a.T}
	case "typeis":
		v := env.eval(t.Args[0])
		T := env.eval(t.Args[1]).ty
		if _, ok := v.T.Underlying().(*types.Interface); !ok {
			env.errf("typeis on non-interface")
		}
		return cval{v: Val{c.Eq(v.v[0], c.Const(64, e.P.tag(T)))}, T: tBool}
	case "sep":
		a := env.eval(t.Args[0])
		b := env.eval(t.Args[1])
		return cval{v: Val{env.sep(a, b)}, T: tBool}
	case "sepdeep":
		a := env.eval(t.Args[0])
		b := env.eval(t.Args[1])
		return cval{v: Val{env.sepDeep(a, b)}, T: tBool}
	case "fresh":
		v := env.eval(t.Args[0])
		return cval{v: Val{c.And(c.Ule(env.brkOld, v.v[0]), c.Ult(v.v[0], env.cur.brk))}, T: tBool}
	case "allocated":
		v := env.eval(t.Args[0])
		return cval{v: Val{c.And(c.Ule(c.Const(64, 1), v.v[0]), c.Ult(v.v[0], env.cur.brk))}, T: tBool}
	case "base":
		v := env.eval(t.Args[0])
		switch v.T.Underlying().(type) {
		case *types.Slice, *types.Pointer, *types.Chan:
			return cval{v: Val{v.v[0]}, T: types.Typ[types.Uintptr]}
		}
		if isString(v.T) {
			return cval{v: Val{v.v[0]}, T: types.Typ[types.Uintptr]}
		}
		env.errf("base of %v", v.T)
	case "nsend", "sendsame", "lastsend", "sendbare":
		v := env.eval(t.Args[0])
		if _, ok := v.T.Underlying().(*types.Interface); !ok {
			env.errf("%s of non-interface", name)
		}
		sock := v.v[1]
		switch name {
		case "nsend":
			return cval{v: Val{e.ghost(env.cur, gkey("nsend", sock), BV(64))}, T: tInt}
		case "sendsame":
			return cval{v: Val{e.ghost(env.cur, gkey("sendsame", sock), Bool)}, T: tBool}
		case "sendbare":
			return cval{v: Val{e.ghost(env.cur, gkey("sendbare", sock), Bool)}, T: tBool}
		}
		T := env.resolveType("knxnet.ServicePackable")
		return cval{v: Val{e.ghost(env.cur, gkey("lastsend", sock)+"#0", BV(64)), e.ghost(env.cur, gkey("lastsend", sock)+"#1", BV(64))}, T: T}
	case "lastrecv":
		v := env.eval(t.Args[0])
		ct, ok := v.T.Underlying().(*types.Chan)
		if !ok {
			env.errf("lastrecv of non-channel")
		}
		sl := e.P.lay.slots(ct.Elem())
		out := make(Val, len(sl))
		for i, k := range sl {
			out[i] = e.ghost(env.cur, fmt.Sprintf("%s#%d", gkey("lastrecv", v.v[0]), i), regSort(k))
		}
		return cval{v: out, T: ct.Elem()}
	case "wbyte":
		// byte i of the slice most recently handed to the network
		i := env.toInt64(env.eval(t.Args[0]))
		base := e.ghost(env.cur, "lastwrite.base", BV(64))
		return cval{v: Val{e.read(env.cur.h[0], c.Add(base, i))}, T: tByte}
	case "pbyte":
		// byte i of the header most recently returned by (*bufio.Reader).Peek
		i := env.toInt64(env.eval(t.Args[0]))
		base := e.ghost(env.cur, "peek.base", BV(64))
		return cval{v: Val{e.read(env.cur.h[0], c.Add(base, i))}, T: tByte}
	case "gobj":
		ks, ok := t.Args[0].(EStr)
		if !ok {
			env.errf("gobj needs a kind string")
		}
		v := env.eval(t.Args[1])
		return cval{v: Val{e.ghost(env.cur, gkey(ks.V, v.v[0]), BV(64))}, T: tInt}
	case "spawnarg":
		ns, ok := t.Args[0].(EStr)
		if !ok {
			env.errf("spawnarg needs a function name string")
		}
		i := env.eval(t.Args[1])
		j := env.eval(t.Args[2])
		return cval{v: Val{e.ghost(env.cur, fmt.Sprintf("spawnarg:%s#%d.%d", ns.V, i.k.Int64(), j.k.Int64()), BV(64))}, T: tInt}
	case "gval":
		s, ok := t.Args[0].(EStr)
		if !ok {
			env.errf("gval needs a name string")
		}
		return cval{v: Val{e.ghost(env.cur, s.V, BV(64))}, T: types.Typ[types.Int64]}
	case "nsent", "nrecv", "nrecvc", "closed", "nclose", "period":
		v := env.eval(t.Args[0])
		ch := v.v[0]
		switch name {
		case "closed":
			return cval{v: Val{e.ghost(env.cur, gkey("closed", ch), Bool)}, T: tBool}
		case "period":
			return cval{v: Val{e.ghost(env.cur, gkey("period", ch), BV(64))}, T: types.Typ[types.Int64]}
		}
		return cval{v: Val{e.ghost(env.cur, gkey(name, ch), BV(64))}, T: tInt}
	case "lastsent":
		v := env.eval(t.Args[0])
		ct, ok := v.T.Underlying().(*types.Chan)
		if !ok {
			env.errf("lastsent of non-channel")
		}
		sl := e.P.lay.slots(ct.Elem())
		out := make(Val, len(sl))
		for i, k := range sl {
			out[i] = e.ghost(env.cur, fmt.Sprintf("%s#%d", gkey("lastsent", v.v[0]), i), regSort(k))
		}
		return cval{v: out, T: ct.Elem()}
	case "held":
		v := env.eval(t.Args[0])
		if v.addr == nil {
			env.errf("held() needs an addressable mutex")
		}
		return cval{v: Val{e.ghost(env.cur, gkey("held", v.addr), Bool)}, T: tBool}
	case "nspawn":
		s, ok := t.Args[0].(EStr)
		if !ok {
			env.errf("nspawn needs a function name string")
		}
		return cval{v: Val{e.ghost(env.cur, "nspawn:"+s.V, BV(64))}, T: tInt}
	case "gcount":
		s, ok := t.Args[0].(EStr)
		if !ok {
			env.errf("gcount needs a counter name string")
		}
		return cval{v: Val{e.ghost(env.cur, s.V, BV(64))}, T: tInt}
	case "rawbyte":
		// byte view of the backing array of a slice whose elements consist of byte cells only
		v := env.eval(t.Args[0])
		i := env.toInt64(env.eval(t.Args[1]))
		if _, ok := v.T.Underlying().(*types.Slice); !ok {
			env.errf("rawbyte of %v", v.T)
		}
		return cval{v: Val{e.read(env.cur.h[0], c.Add(v.v[0], i))}, T: tByte}
	case "payload":
		v := env.eval(t.Args[0])
		if _, ok := v.T.Underlying().(*types.Interface); !ok {
			env.errf("payload of non-interface")
		}
		return cval{v: Val{v.v[1]}, T: types.Typ[types.Uintptr]}
	case "inmap", "mapval", "maplen":
		// constant tables (constmap.go): inmap(table, key), mapval(table, key), maplen(table)
		id, ok := t.Args[0].(EIdent)
		if !ok || env.pkg == nil {
			env.errf("%s: first argument must name a package-level map", name)
		}
		var g *ssa.Global
		for _, sp := range e.P.ssaPkgs {
			if sp.Pkg == env.pkg {
				g, _ = sp.Members[id.Name].(*ssa.Global)
			}
		}
		if g == nil {
			env.errf("%s: %s is not a package-level variable", name, id.Name)
		}
		ci := e.P.constMapOf(g)
		if ci.err != "" {
			env.errf("%s: %s is not a constant table: %s", name, id.Name, ci.err)
		}
		if name == "maplen" {
			return cval{k: big.NewInt(int64(len(ci.entries)))}
		}
		key := env.eval(t.Args[1])
		if !isString(key.T) {
			env.errf("%s: key must be a string", name)
		}
		if name == "inmap" {
			return cval{v: Val{e.inTable(env.cur, ci.entries, key.v)}, T: tBool}
		}
		mt := g.Type().(*types.Pointer).Elem().Underlying().(*types.Map)
		tag, word := c.Const(64, 0), c.Const(64, 0)
		for i := len(ci.entries) - 1; i >= 0; i-- {
			en := ci.entries[i]
			eq := e.strEqConst(env.cur, key.v, en.key)
			v := e.constMapValue(g, i, en)
			tag, word = c.Ite(eq, v[0], tag), c.Ite(eq, v[1], word)
		}
		return cval{v: Val{tag, word}, T: mt.Elem()}
	case "sametype":
		a, b := env.eval(t.Args[0]), env.eval(t.Args[1])
		return cval{v: Val{c.Eq(a.v[0], b.v[0])}, T: tBool}
	case "zeroed":
		// the object an interface value points to is all zero (dynamic type known on the path)
		v := env.eval(t.Args[0])
		tag := e.peelIte(env.cur, v.v[0])
		if !tag.IsConst() {
			if alts := env.cur.tagAlternatives(tag); len(alts) == 1 {
				for k := range alts {
					tag = c.Const(64, k)
				}
			}
		}
		zeroOf := func(T types.Type) *Term {
			p, isP := T.Underlying().(*types.Pointer)
			if !isP {
				return c.True
			}
			obj := e.loadFrom(env.cur.h, v.v[1], p.Elem())
			z := e.zeroVal(p.Elem())
			var cs []*Term
			for i := range obj {
				cs = append(cs, c.Eq(obj[i], z[i]))
			}
			return c.And(cs...)
		}
		if !tag.IsConst() {
			it, isI := v.T.Underlying().(*types.Interface)
			if !isI {
				env.errf("zeroed of a non-interface value")
			}
			var cs []*Term
			for _, T := range e.P.implementers(it) {
				cs = append(cs, c.Imp(c.Eq(tag, c.Const(64, e.P.tag(T))), zeroOf(T)))
			}
			return cval{v: Val{c.And(cs...)}, T: tBool}
		}
		if tag.C == 0 {
			return cval{v: Val{c.True}, T: tBool}
		}
		return cval{v: Val{zeroOf(e.P.typeOfTag(tag.C))}, T: tBool}
	case "nparts", "part":
		// decimal text view (text.go): nparts(s, 'c'), part(s, 'c', k)
		v := env.eval(t.Args[0])
		if !isString(v.T) {
			env.errf("%s of non-string", name)
		}
		cht := env.toInt64(env.eval(t.Args[1]))
		if !cht.IsConst() {
			env.errf("%s: separator must be a constant", name)
		}
		ch := byte(cht.C)
		if name == "nparts" {
			return cval{v: Val{e.txtNParts(v.v, ch)}, T: types.Typ[types.Int]}
		}
		k := env.toInt64(env.eval(t.Args[2]))
		return cval{v: e.txtPart(v.v, ch, k), T: types.Typ[types.String]}
	case "localaddr":
		// the local address of a socket (environment model: a function of the socket)
		v := env.eval(t.Args[0])
		if len(v.v) != 2 {
			env.errf("localaddr of a non-interface value")
		}
		var at types.Type = types.NewInterfaceType(nil, nil)
		if it, ok := v.T.Underlying().(*types.Interface); ok {
			for i := 0; i < it.NumMethods(); i++ {
				if it.Method(i).Name() == "LocalAddr" {
					at = it.Method(i).Type().(*types.Signature).Results().At(0).Type()
				}
			}
		}
		return cval{v: Val{c.Apply("sock.localaddr.tag", BV(64), v.v[1]), c.Apply("sock.localaddr.word", BV(64), v.v[1])}, T: at}
	case "network":
		v := env.eval(t.Args[0])
		if len(v.v) != 2 {
			env.errf("network of a non-interface value")
		}
		return cval{v: e.addrNetwork(v.v), T: types.Typ[types.String]}
	case "atoiok":
		v := env.eval(t.Args[0])
		return cval{v: Val{e.txtAtoiOk(v.v)}, T: tBool}
	case "atoiv":
		v := env.eval(t.Args[0])
		return cval{v: Val{e.txtAtoiV(v.v)}, T: types.Typ[types.Int]}
	case "f32bits":
		v := env.eval(t.Args[0])
		return cval{v: Val{e.fpToBits(v.v[0])}, T: types.Typ[types.Uint32]}
	case "f32frombits":
		v := env.eval(t.Args[0])
		v = env.convertTo(v, types.Typ[types.Uint32])
		return cval{v: Val{e.fpFromBits(v.v[0])}, T: types.Typ[types.Float32]}
	case "isNaN":
		v := env.eval(t.Args[0])
		return cval{v: Val{e.fpIsNaN(v.v[0], v.T)}, T: tBool}
	}
	// spec function?
	if sf := env.findSpec(name); sf != nil {
		n := env.child()
		if len(sf.Params) != len(t.Args) {
			env.errf("spec %s: %d arguments expected", name, len(sf.Params))
		}
		for i, p := range sf.Params {
			v := env.eval(t.Args[i])
			if PT := env.resolveType(sf.PTypes[i]); PT != nil && (v.k != nil) {
				v = env.convertTo(v, PT)
			}
			n.vars[p] = v
		}
		if sp, ok := env.e.P.ssaPkgs[sf.Pkg]; ok {
			n.pkg = sp.Pkg
		}
		n.depth++
		if n.depth > 40 {
			env.errf("spec recursion too deep")
		}
		r := n.eval(sf.Body)
		if sf.RType != "" {
			if RT := n.resolveType(sf.RType); RT != nil {
				if r.k != nil || r.fk != nil || (r.T != nil && isInteger(r.T) && isInteger(RT) && !types.Identical(r.T.Underlying(), RT.Underlying())) {
					r = env.convertTo(r, RT)
				}
			}
		}
		return r
	}
	// pure method call x.M(args) on the real code
	if sel, ok := t.Fun.(ESel); ok {
		if r, ok := env.pureMethodCall(sel, t.Args); ok {
			return r
		}
	}
	// pure call of a package-level function of the real code
	if id, ok := t.Fun.(EIdent); ok && env.pkg != nil {
		if fo, ok := env.pkg.Scope().Lookup(id.Name).(*types.Func); ok {
			if fn := env.e.P.prog.FuncValue(fo); fn != nil {
				var args []Val
				for i, a := range t.Args {
					v := env.eval(a)
					if v.k != nil {
						v = env.convertTo(v, fo.Type().(*types.Signature).Params().At(i).Type())
					}
					args = append(args, v.v)
				}
				return env.pureCall(fn, args)
			}
		}
	}
	// conversion T(x)
	fv := env.eval(t.Fun)
	if fv.ty != nil && len(t.Args) == 1 {
		return env.convertTo(env.eval(t.Args[0]), fv.ty)
	}
	env.errf("unknown function %s", name)
	return cval{}
}

func (env *cenv) findSpec(name string) *SpecFun {
	cs := env.e.P.contracts
	if cs == nil {
		return nil
	}
	if strings.Contains(name, ".") {
		return cs.specs[name]
	}
	if env.pkg != nil {
		if sf, ok := cs.specs[shortPkg(env.pkg.Path())+"."+name]; ok {
			return sf
		}
	}
	for _, sf := range cs.specs {
		if sf.Name == name {
			return sf
		}
	}
	return nil
}

// footprint of a value for sep(): list of (heap index, start, length-in-slots)
type span struct {
	h     int
	start *Term
	n     *Term
}

func (env *cenv) footprint(v cval) []span {
	e := env.e
	c := e.c
	var out []span
	add := func(T types.Type, start, count *Term) {
		sl := e.P.lay.slots(T)
		used := [4]bool{}
		for _, k := range sl {
			used[k.heapIdx()] = true
		}
		n := c.Mul(count, c.Const(64, uint64(len(sl))))
		for h, u := range used {
			if u {
				out = append(out, span{h, start, n})
			}
		}
	}
	switch t := v.T.Underlying().(type) {
	case *types.Slice:
		add(t.Elem(), v.v[0], v.v[2])
	case *types.Pointer:
		add(t.Elem(), v.v[0], c.Const(64, 1))
	default:
		if v.addr != nil {
			add(v.T, v.addr, c.Const(64, 1))
		}
	}
	return out
}

func (env *cenv) sep(a, b cval) *Term {
	c := env.e.c
	var cs []*Term
	for _, x := range env.footprint(a) {
		for _, y := range env.footprint(b) {
			if x.h != y.h {
				continue
			}
			z := c.Const(64, 0)
			cs = append(cs, c.Or(c.Eq(x.n, z), c.Eq(y.n, z), c.Ule(c.Add(x.start, x.n), y.start), c.Ule(c.Add(y.start, y.n), x.start)))
		}
	}
	return c.And(cs...)
}

// lvalueSpans resolves an assigns-clause expression to heap spans.
func (env *cenv) lvalueSpans(x Expr) []span {
	e := env.e
	c := e.c
	if s, ok := x.(ESlice); ok {
		v := env.eval(s) // slice header of the sub-range
		st := v.T.Underlying().(*types.Slice)
		sl := e.P.lay.slots(st.Elem())
		used := [4]bool{}
		for _, k := range sl {
			used[k.heapIdx()] = true
		}
		var out []span
		for h, u := range used {
			if u {
				out = append(out, span{h, v.v[0], c.Mul(v.v[1], c.Const(64, uint64(len(sl))))})
			}
		}
		return out
	}
	v := env.eval(x)
	if v.addr == nil {
		env.errf("assigns target is not addressable")
	}
	sl := e.P.lay.slots(v.T)
	var out []span
	// one span per heap kind covering the whole object (over-approximation within the object)
	used := [4]bool{}
	for _, k := range sl {
		used[k.heapIdx()] = true
	}
	for h, u := range used {
		if u {
			out = append(out, span{h, v.addr, c.Const(64, uint64(len(sl)))})
		}
	}
	return out
}

// pureMethodCall evaluates x.M(args) by running the real method M symbolically on the
// current state (or through its contract) and merging the outcomes. The method must be
// side-effect free (its own contract says `assigns nothing`).
func (env *cenv) pureMethodCall(sel ESel, argx []Expr) (cval, bool) {
	e := env.e
	// package-qualified function?
	if id, ok := sel.X.(EIdent); ok {
		if _, isVar := env.vars[id.Name]; !isVar {
			if sp, ok := e.P.ssaPkgs[id.Name]; ok {
				if _, isFn := sp.Pkg.Scope().Lookup(sel.Sel).(*types.Func); !isFn {
					return cval{}, false // a type or constant of that package
				}
				if fo, ok := sp.Pkg.Scope().Lookup(sel.Sel).(*types.Func); ok {
					fn := e.P.prog.FuncValue(fo)
					var args []Val
					for i, a := range argx {
						v := env.eval(a)
						if v.k != nil {
							v = env.convertTo(v, fo.Type().(*types.Signature).Params().At(i).Type())
						}
						args = append(args, v.v)
					}
					return env.pureCall(fn, args), true
				}
			}
		}
	}
	xv := env.eval(sel.X)
	if xv.T == nil {
		return cval{}, false
	}
	var args []Val
	if nt, ok := xv.T.(*types.Named); ok && nt.Obj().Name() == "Socket" && e.rootInKnx() {
		switch sel.Sel {
		case "Inbound":
			o := e.P.lookupIfaceMethodResult(nt, "Inbound")
			return cval{v: Val{e.c.Apply("sock.inbound", BV(64), xv.v[1])}, T: o}, true
		}
	}
	if _, isI := xv.T.Underlying().(*types.Interface); isI {
		// dynamic dispatch over the closed world
		it := xv.T.Underlying().(*types.Interface)
		for _, a := range argx {
			args = append(args, env.eval(a).v)
		}
		var res cval
		first := true
		c := e.c
		alts := env.cur.tagAlternatives(xv.v[0])
		for _, I := range e.P.implementers(it) {
			if alts != nil && !alts[e.P.tag(I)] {
				continue
			}
			fn := e.P.method(I, sel.Sel, nil)
			if fn == nil {
				continue
			}
			cond := c.Eq(xv.v[0], c.Const(64, e.P.tag(I)))
			sub := *env
			sub.cur = env.cur.branch(cond)
			var rv Val
			if pointerShaped(I) {
				rv = Val{xv.v[1]}
			} else {
				rv = sub.ld(xv.v[1], I)
			}
			r := sub.pureCall(fn, append([]Val{rv}, args...))
			if first {
				res = r
				first = false
				continue
			}
			out := make(Val, len(r.v))
			for i := range r.v {
				out[i] = c.Ite(cond, r.v[i], res.v[i])
			}
			res = cval{v: out, T: r.T}
		}
		if first {
			return cval{}, false
		}
		return res, true
	}
	obj, _, _ := types.LookupFieldOrMethod(xv.T, true, env.pkg, sel.Sel)
	fo, ok := obj.(*types.Func)
	if !ok {
		for _, sp := range e.P.ssaPkgs {
			if o, _, _ := types.LookupFieldOrMethod(xv.T, true, sp.Pkg, sel.Sel); o != nil {
				fo, ok = o.(*types.Func)
				break
			}
		}
	}
	if !ok {
		return cval{}, false
	}
	sig := fo.Type().(*types.Signature)
	// find the concrete SSA method through the method set of T or *T
	var fn *ssa.Function
	recvT := xv.T
	if fn = e.P.method(recvT, sel.Sel, nil); fn == nil {
		if _, isP := recvT.Underlying().(*types.Pointer); !isP {
			fn = e.P.method(types.NewPointer(recvT), sel.Sel, nil)
			if fn != nil {
				if xv.addr == nil {
					env.errf("method %s needs an addressable receiver", sel.Sel)
				}
				xv = cval{v: Val{xv.addr}, T: types.NewPointer(recvT)}
			}
		}
	}
	if fn == nil {
		return cval{}, false
	}
	// receiver shape: method set lookup on *T may return a value-receiver method wrapper; fine
	args = append(args, xv.v)
	for i, a := range argx {
		v := env.eval(a)
		if v.k != nil {
			v = env.convertTo(v, sig.Params().At(i).Type())
		}
		args = append(args, v.v)
	}
	return env.pureCall(fn, args), true
}

func (env *cenv) pureCall(fn *ssa.Function, args []Val) cval {
	e := env.e
	c := e.c
	res := fn.Signature.Results()
	if res.Len() != 1 {
		env.errf("pure call of %s: exactly one result expected", fn)
	}
	RT := res.At(0).Type()
	ct := e.P.contracts.lookup(e.P, fn)
	hasLoop := false
	for _, b := range fn.Blocks {
		if isLoopHeader(b) {
			hasLoop = true
		}
	}
	if ct != nil && !ct.Inline && len(ct.Ensures) > 0 && fn != e.rootFn && hasLoop {
		// through the contract: fresh result constrained by the ensures clauses
		r := e.freshVal(RT, "pure."+fn.Name())
		penv := e.contractEnv(fn, ct, args, env.cur, env.cur, env.cur.brk)
		penv.facts = env.facts
		e.bindResults(penv, fn, ct, r)
		e.evalLets(penv, ct)
		for _, en := range ct.Ensures {
			penv.where = en.Line
			g := penv.evalBool(en.X)
			if env.facts != nil && !g.hb {
				*env.facts = append(*env.facts, g)
			} else if env.facts != nil {
				*env.facts = append(*env.facts, g)
			}
		}
		return cval{v: r, T: RT}
	}
	e.mute++
	base := env.cur.pc
	fr := &Frame{fn: fn, regs: map[ssa.Value]Val{}, visits: map[*ssa.BasicBlock]int{}, loops: map[*ssa.BasicBlock]*loopCut{}, depth: 1}
	e.stack = append(e.stack, fn)
	outs := e.execFn(fn, args, nil, env.cur, fr.depth+1, nil)
	e.stack = e.stack[:len(e.stack)-1]
	e.mute--
	if len(outs) == 0 {
		env.errf("pure call of %s has no returning path", fn)
	}
	var out Val
	for i := len(outs) - 1; i >= 0; i-- {
		o := outs[i]
		var conds []*Term
		for p := o.st.pc; p != nil && p != base; p = p.prev {
			if p.br {
				conds = append(conds, p.t)
			} else if env.facts != nil && !p.t.hb {
				// assumed type invariants met on the way are facts, not part of the case split
				*env.facts = append(*env.facts, p.t)
			}
		}
		cond := c.And(conds...)
		if out == nil {
			out = append(Val{}, o.ret...)
			continue
		}
		for k := range out {
			out[k] = c.Ite(cond, o.ret[k], out[k])
		}
	}
	return cval{v: out, T: RT}
}

type cspan struct {
	cond *Term
	span
}

// deepFootprint lists the cells of v and of everything reachable from it through
// slices, pointers and interface values (closed world), each under its condition.
func (env *cenv) deepFootprint(T types.Type, v Val, addr *Term, cond *Term, depth int, out *[]cspan) {
	e := env.e
	c := e.c
	if depth > 9 {
		return
	}
	e.tick()
	add := func(ET types.Type, start, count *Term) {
		sl := e.P.lay.slots(ET)
		used := [4]bool{}
		for _, k := range sl {
			used[k.heapIdx()] = true
		}
		n := c.Mul(count, c.Const(64, uint64(len(sl))))
		for h, u := range used {
			if u {
				*out = append(*out, cspan{cond, span{h, start, n}})
			}
		}
	}
	if addr != nil {
		add(T, addr, c.Const(64, 1))
	}
	switch t := T.Underlying().(type) {
	case *types.Slice:
		add(t.Elem(), v[0], v[2])
		// elements holding references are not followed (none in the encoders' domain
		// except []ServiceFamily / []UnknownDescriptionBlock whose elements are flat or unused)
	case *types.Pointer:
		pv := env.ld(v[0], t.Elem())
		env.deepFootprint(t.Elem(), pv, v[0], c.And(cond, c.Ne(v[0], c.Const(64, 0))), depth+1, out)
	case *types.Struct:
		off := 0
		for i := 0; i < t.NumFields(); i++ {
			n := e.P.lay.nslots(t.Field(i).Type())
			env.deepFootprint(t.Field(i).Type(), v[off:off+n], nil, cond, depth+1, out)
			off += n
		}
	case *types.Interface:
		alts := env.cur.tagAlternatives(v[0])
		for _, I := range e.P.implementers(t) {
			if alts != nil && !alts[e.P.tag(I)] {
				continue
			}
			cnd := c.And(cond, c.Eq(v[0], c.Const(64, e.P.tag(I))))
			if pt, ok := I.Underlying().(*types.Pointer); ok {
				pv := env.ld(v[1], pt.Elem())
				env.deepFootprint(pt.Elem(), pv, v[1], cnd, depth+1, out)
			} else {
				bv := env.ld(v[1], I)
				env.deepFootprint(I, bv, v[1], cnd, depth+1, out)
			}
		}
	case *types.Basic:
		if t.Info()&types.IsString != 0 {
			*out = append(*out, cspan{cond, span{0, v[0], v[1]}})
		}
	}
}

func (env *cenv) sepDeep(a, b cval) *Term {
	c := env.e.c
	var fa []cspan
	env.deepFootprint(a.T, a.v, a.addr, c.True, 0, &fa)
	var cs []*Term
	z := c.Const(64, 0)
	for _, x := range fa {
		for _, y := range env.footprint(b) {
			if x.h != y.h {
				continue
			}
			cs = append(cs, c.Imp(x.cond, c.Or(c.Eq(x.n, z), c.Eq(y.n, z), c.Ule(c.Add(x.start, x.n), y.start), c.Ule(c.Add(y.start, y.n), x.start))))
		}
	}
	return c.And(cs...)
}

package main

func cmdCheck(args []string) int    { return 2 }
func cmdReplay(args []string) int   { return 2 }
func cmdSelftest(args []string) int { return 2 }
func (P *Program) analyseInits() error { return nil }

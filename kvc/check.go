package main

import (
	"encoding/json"
	"flag"
	"fmt"
	"go/token"
	"go/types"
	"os"
	"path/filepath"
	"regexp"
	"runtime"
	"sort"
	"strconv"
	"strings"
	"sync"
	"time"

	"golang.org/x/tools/go/ssa"
)

const verifDir = "/verif"

type knownFinding struct {
	Property   string `json:"property"`
	Obligation string `json:"obligation"`
	Site       string `json:"site"`
	InputClass string `json:"input_class,omitempty"`
	What       string `json:"what"`
}

type fixedFinding struct {
	Property   string `json:"property"`
	Commit     string `json:"commit"`
	Obligation string `json:"obligation"`
	What       string `json:"what"`
}

type knownFile struct {
	Findings []knownFinding `json:"findings"`
	Fixed    []fixedFinding `json:"fixed"`
}

func loadKnown() knownFile {
	var k knownFile
	b, err := os.ReadFile(filepath.Join(verifDir, "known_findings.json"))
	if err == nil {
		json.Unmarshal(b, &k)
	}
	return k
}

// funcsFor lists the functions whose (merged) contract names prop.
func funcsFor(P *Program, prop string) []*ssa.Function {
	var out []*ssa.Function
	for _, fn := range sortedFuncs(P) {
		if len(fn.Blocks) == 0 {
			continue
		}
		ct := P.contracts.lookup(P, fn)
		if ct == nil {
			continue
		}
		for _, p := range ct.Props {
			if p == prop {
				out = append(out, fn)
				break
			}
		}
	}
	return out
}

func hasProp(ps []string, p string) bool {
	for _, x := range ps {
		if x == p {
			return true
		}
	}
	return false
}

type checkOpts struct {
	repo     string
	tier     string
	timeoutS int
	cross    bool
	seed     int
	quiet    bool
	noReplay bool
	only     string
}

type groupReport struct {
	Name    string `json:"name"`
	Func    string `json:"func"`
	Kind    string `json:"kind"`
	Pos     string `json:"pos"`
	Status  string `json:"status"`
	N       int    `json:"instances"`
	Solver  string `json:"solver"`
	Millis  int64  `json:"ms"`
	Trivial int    `json:"trivial"`
	MaxSize int    `json:"smt_bytes_max"`
}

func cmdCheck(args []string) int {
	if len(args) < 1 {
		usage()
	}
	prop := args[0]
	fl := flag.NewFlagSet("check", flag.ExitOnError)
	repo := fl.String("repo", "/repo", "repository")
	tier := fl.String("tier", "", "quick|thorough")
	quiet := fl.Bool("q", false, "quiet")
	noReplay := fl.Bool("noreplay", false, "do not run replays")
	noEvidence := fl.Bool("noevidence", false, "do not write the evidence file")
	only := fl.String("only", "", "debugging: restrict to functions whose name contains this (implies -noevidence)")
	fl.Parse(args[1:])
	o := checkOpts{repo: *repo, tier: *tier, quiet: *quiet, noReplay: *noReplay, only: *only}
	if *only != "" {
		*noEvidence = true
	}
	if o.tier == "" {
		o.tier = os.Getenv("VERIF_TIER")
	}
	if o.tier == "" {
		o.tier = "quick"
	}
	o.timeoutS = 20
	if o.tier == "thorough" {
		o.timeoutS = 300
		o.cross = true
	}
	if s := os.Getenv("VERIF_SEED"); s != "" {
		o.seed, _ = strconv.Atoi(s)
	}
	res := runCheck(prop, o)
	if !*noEvidence && *repo == "/repo" {
		writeEvidence(prop, o, res)
	}
	if res.violations > 0 || res.broken != "" {
		return 1
	}
	return 0
}

type checkResult struct {
	prop        string
	funcs       []*VerifyResult
	groups      []*oblGroup
	failed      []*oblGroup
	violations  int
	known       int
	broken      string
	wall        float64
	nObl        int
	nDischarged int
	nTrivial    int
	nInstances  int
	lines       []string
	extra       map[string]interface{}
}

func (r *checkResult) say(quiet bool, format string, a ...interface{}) {
	s := fmt.Sprintf(format, a...)
	r.lines = append(r.lines, s)
	if !quiet {
		fmt.Println(s)
	}
}

func runCheck(prop string, o checkOpts) *checkResult {
	t0 := time.Now()
	res := &checkResult{prop: prop, extra: map[string]interface{}{}}
	P, err := loadProgram(o.repo)
	if err != nil {
		// A tree that does not build cannot be judged: report as a broken run, not a violation.
		res.broken = "load: " + err.Error()
		fmt.Println("kvc: cannot load repository:", err)
		return res
	}
	cs, err := loadContracts(P)
	if err != nil {
		res.broken = "contracts: " + err.Error()
		fmt.Println("kvc: contract files do not match the code:", err)
		// a contract naming a function that no longer exists: the obligation set changed
		fmt.Printf("VIOLATION property=%s replay=%s no-failing-input-found\n", prop, writeSimpleReplay(prop, "contract-binding", err.Error()))
		res.violations++
		return res
	}
	P.contracts = cs
	if err := P.analyseInits(); err != nil {
		res.broken = "init: " + err.Error()
		fmt.Println("kvc:", err)
		return res
	}
	fns := funcsFor(P, prop)
	if o.only != "" {
		var keep []*ssa.Function
		for _, f := range fns {
			if strings.Contains(shortFn(f.String()), o.only) {
				keep = append(keep, f)
			}
		}
		fns = keep
	}
	if o.tier != "thorough" {
		var keep []*ssa.Function
		var skipped []string
		for _, f := range fns {
			if ct := P.contracts.lookup(P, f); ct != nil && ct.Thorough {
				skipped = append(skipped, shortFn(f.String()))
				continue
			}
			keep = append(keep, f)
		}
		fns = keep
		if len(skipped) > 0 {
			res.extra["thorough_tier_only"] = skipped
		}
	}
	if extra := extraChecks[prop]; extra != nil {
		// property-specific structural checks (registry, frames, census)
		extra(P, res, o)
	}
	if len(fns) == 0 && len(res.groups) == 0 && (o.only == "" || len(standins[prop]) == 0) {
		res.broken = "no functions under contract for " + prop
		fmt.Println("kvc:", res.broken)
		return res
	}
	// symbolic execution, parallel over functions
	results := make([]*VerifyResult, len(fns))
	var wg sync.WaitGroup
	sem := make(chan struct{}, runtime.NumCPU())
	for i, fn := range fns {
		wg.Add(1)
		go func(i int, fn *ssa.Function) {
			defer wg.Done()
			sem <- struct{}{}
			defer func() { <-sem }()
			results[i] = verifyFunction(P, fn, []string{prop})
		}(i, fn)
	}
	wg.Wait()
	var all []*Obligation
	for _, r := range results {
		all = append(all, r.Obls...)
	}
	dir, _ := os.MkdirTemp("", "kvc-"+prop+"-")
	defer os.RemoveAll(dir)
	dischargeAll(all, dir, o.timeoutS, o.cross, runtime.NumCPU())
	res.funcs = results
	known := loadKnown()
	for _, r := range results {
		if r.Unsup != "" {
			// fail closed: a function in a claimed cone that left the supported subset
			g := &oblGroup{name: shortFn(r.Fn.String()) + "#outside-reach", pos: P.pos(r.Fn.Pos()),
				obls: []*Obligation{{Name: shortFn(r.Fn.String()) + "#outside-reach", Kind: "reach", Func: r.Fn.String(),
					Result: "unknown", Output: r.Unsup, Goal: r.Unsup, Props: []string{prop}}}}
			res.groups = append(res.groups, g)
		}
		for _, g := range groupObls(r.Obls) {
			res.groups = append(res.groups, g)
		}
	}
	for _, g := range res.groups {
		// obligations tagged for other properties only are reported by those properties
		if len(g.obls[0].Props) > 0 && !hasProp(g.obls[0].Props, prop) {
			continue
		}
		res.nObl++
		res.nInstances += len(g.obls)
		for _, ob := range g.obls {
			if ob.Trivial {
				res.nTrivial++
			}
		}
		if g.status() == "discharged" {
			res.nDischarged++
			continue
		}
		res.failed = append(res.failed, g)
	}
	sort.Slice(res.failed, func(i, j int) bool { return res.failed[i].name < res.failed[j].name })
	for _, g := range res.failed {
		kf := matchKnown(known, prop, g)
		if kf != nil {
			res.known++
			res.say(false, "KNOWN-FINDING: property=%s %s %s", prop, g.name, kf.What)
			continue
		}
		path, tail := makeReplay(P, prop, g, o)
		res.violations++
		line := fmt.Sprintf("VIOLATION property=%s replay=%s", prop, path)
		if tail != "" {
			line += " " + tail
		}
		res.say(false, "%s", line)
		if !o.quiet {
			fmt.Printf("  obligation %s (%s) at %s: %s\n", g.name, g.status(), g.pos, firstFailing(g).Goal)
		}
	}
	runStandins(prop, o, res)
	if o.tier == "thorough" && o.only == "" && !o.noReplay {
		// differential validation of the verifier's own semantics on this property's functions
		agree, mism, skip, details := conformRun(P, prop, "", 6, 2)
		res.extra["semantics_conformance"] = map[string]interface{}{
			"what":           "per reachable return path of every abstraction-free function under contract: the scalars the symbolic execution predicts on a solver-chosen, pseudo-randomised input, compared with the real code run on the same input",
			"paths_compared": agree + mism, "agree": agree, "mismatch": mism, "skipped": skip, "mismatches": details,
		}
		res.say(o.quiet, "  semantics conformance: %d return paths compared with the real code, %d agree, %d mismatch, %d skipped", agree+mism, agree, mism, skip)
		for _, d := range details {
			res.say(false, "  WARNING %s", d)
		}
	}
	res.wall = time.Since(t0).Seconds()
	if os.Getenv("KVC_TIMES") != "" {
		for _, r := range results {
			var ms int64
			for _, ob := range r.Obls {
				ms += ob.Millis
			}
			fmt.Printf("  time %6.1fs solver, %4d obligations, %3d paths  %s\n", float64(ms)/1000, len(r.Obls), r.Paths, shortFn(r.Fn.String()))
		}
	}
	if !o.quiet {
		fmt.Printf("kvc check %s [%s]: %d functions, %d obligations (%d instances, %d by simplifier), %d discharged, %d known findings, %d violations, %.1fs wall, %.1fs solver\n",
			prop, o.tier, len(fns), res.nObl, res.nInstances, res.nTrivial, res.nDischarged, res.known, res.violations, res.wall, float64(solverSeconds)/1000)
	}
	return res
}

// censusCheck: the for-all over "every registered datapoint type" is only as good as the list
// of lemmas/contracts: one ground obligation per registered type saying that it is covered.
func censusCheck(prop string, covered func(P *Program, sp *ssa.Package, typeName string) (bool, string)) func(P *Program, res *checkResult, o checkOpts) {
	return func(P *Program, res *checkResult, o checkOpts) {
		if o.only != "" {
			return
		}
		for _, sp := range P.ssaPkgs {
			if sp.Pkg.Name() != "dpt" {
				continue
			}
			g, ok := sp.Members["dptTypes"].(*ssa.Global)
			if !ok {
				continue
			}
			ci := P.constMapOf(g)
			var obls []*Obligation
			mk := func(name, goal string, ok bool, detail string) {
				ob := &Obligation{Name: "dpt#" + name, Kind: "census", Func: "dpt", Goal: goal, Props: []string{prop}, Trivial: true,
					Solver: "evaluation", Pos: P.pos(g.Pos()), Result: "unsat"}
				if !ok {
					ob.Result, ob.Output = "sat", detail
				}
				obls = append(obls, ob)
			}
			if ci.err != "" {
				mk("census.table", "the registry is a constant table", false, ci.err)
			}
			for _, en := range ci.entries {
				tn := ""
				if p, isP := en.vt.(*types.Pointer); isP {
					if n, isN := p.Elem().(*types.Named); isN {
						tn = n.Obj().Name()
					}
				}
				okc, how := covered(P, sp, tn)
				mk("census:"+tn, fmt.Sprintf("registered type %s (%s) is covered: %s", tn, en.key, how), okc, tn+" is registered but "+how)
			}
			res.groups = append(res.groups, groupObls(obls)...)
		}
	}
}

func hasFuncWithProp(P *Program, sp *ssa.Package, name, prop string) bool {
	fn := sp.Func(name)
	if fn == nil {
		return false
	}
	ct := P.contracts.lookup(P, fn)
	return ct != nil && hasProp(ct.Props, prop)
}

func methodWithProp(P *Program, sp *ssa.Package, typeName, method, prop string) bool {
	tn, ok := sp.Pkg.Scope().Lookup(typeName).(*types.TypeName)
	if !ok {
		return false
	}
	for _, T := range []types.Type{tn.Type(), types.NewPointer(tn.Type())} {
		ms := sp.Prog.MethodSets.MethodSet(T)
		for i := 0; i < ms.Len(); i++ {
			if ms.At(i).Obj().Name() == method {
				fn := sp.Prog.MethodValue(ms.At(i))
				if fn != nil && fn.Synthetic == "" {
					if ct := P.contracts.lookup(P, fn); ct != nil && hasProp(ct.Props, prop) {
						return true
					}
				}
			}
		}
	}
	return false
}

// types whose C06 round trip is decided by a stand-in instead of a lemma
var c06ByStandin = regexp.MustCompile(`^DPT_(9|16)[0-9]{3}$`)

var extraChecks = map[string]func(P *Program, res *checkResult, o checkOpts){
	"C06": censusCheck("C06", func(P *Program, sp *ssa.Package, tn string) (bool, string) {
		if c06ByStandin.MatchString(tn) {
			return true, "stand-in (9.xxx exhaustive, 16.xxx bounded; the stand-ins check their own type lists against the registry)"
		}
		if hasFuncWithProp(P, sp, "lemmaC06_"+tn, "C06") {
			return true, "lemmaC06_" + tn
		}
		return false, "has no round-trip lemma lemmaC06_" + tn
	}),
	"C07": censusCheck("C07", func(P *Program, sp *ssa.Package, tn string) (bool, string) {
		if hasFuncWithProp(P, sp, "lemmaC07_"+tn, "C07") {
			return true, "lemmaC07_" + tn
		}
		return false, "has no encoding lemma lemmaC07_" + tn
	}),
	"C08": censusCheck("C08", func(P *Program, sp *ssa.Package, tn string) (bool, string) {
		if methodWithProp(P, sp, tn, "Unpack", "C08") {
			return true, "contract on Unpack"
		}
		return false, "its Unpack has no C08 contract"
	}),
	"C19": func(P *Program, res *checkResult, o checkOpts) {
		for _, sp := range P.ssaPkgs {
			if sp.Pkg.Name() != "dpt" {
				continue
			}
			if g, ok := sp.Members["dptTypes"].(*ssa.Global); ok {
				res.groups = append(res.groups, groupObls(tableObligations(P, "C19", g))...)
			}
		}
	},
}

func firstFailing(g *oblGroup) *Obligation {
	for _, o := range g.obls {
		if g.isCover() {
			return o
		}
		if o.Result != "unsat" {
			return o
		}
	}
	return g.obls[0]
}

func matchKnown(k knownFile, prop string, g *oblGroup) *knownFinding {
	for i := range k.Findings {
		f := &k.Findings[i]
		if f.Property == prop && f.Obligation == g.name {
			return f
		}
	}
	return nil
}

func writeSimpleReplay(prop, name, msg string) string {
	dir := filepath.Join(verifDir, "replays", prop)
	os.MkdirAll(dir, 0o755)
	p := filepath.Join(dir, sanitize(name)+".json")
	b, _ := json.MarshalIndent(map[string]interface{}{"property": prop, "obligation": name, "verdict": "not-attempted",
		"solver_output": msg}, "", " ")
	os.WriteFile(p, b, 0o644)
	return p
}

func sanitize(s string) string {
	r := strings.NewReplacer("/", "_", "(", "", ")", "", "*", "", "#", "-", ":", "-", "@", "-", " ", "_")
	return r.Replace(s)
}

func writeEvidence(prop string, o checkOpts, res *checkResult) {
	os.MkdirAll(filepath.Join(verifDir, "evidence"), 0o755)
	var fnames, inlined, viaCt, unsup, noDecr, bounded []string
	assumed := map[string]bool{}
	inl := map[string]bool{}
	via := map[string]bool{}
	for _, r := range res.funcs {
		fnames = append(fnames, shortFn(r.Fn.String()))
		if r.Unsup != "" {
			unsup = append(unsup, shortFn(r.Fn.String())+": "+r.Unsup)
		}
		for k := range r.Exec.assumed {
			assumed[k] = true
		}
		for k := range r.Exec.inlined {
			inl[k] = true
		}
		for k := range r.Exec.viaCt {
			via[k] = true
		}
		noDecr = append(noDecr, r.NoDecr...)
		bounded = append(bounded, r.Bounded...)
	}
	for k := range inl {
		inlined = append(inlined, k)
	}
	for k := range via {
		viaCt = append(viaCt, k)
	}
	sort.Strings(inlined)
	sort.Strings(viaCt)
	var assumptions []string
	for k := range assumed {
		assumptions = append(assumptions, k)
	}
	sort.Strings(assumptions)
	assumptions = append(assumptions,
		"go/ssa (x/tools v0.29.0) preserves the semantics of the gc compiler",
		"machine arithmetic is modelled as machine arithmetic: integers are fixed-width bit-vectors with Go's wrap-around, shifts and conversions; float32/float64 are IEEE-754 in the SMT FloatingPoint theory (round-to-nearest-even, no fused multiply-add); nothing is idealised to mathematical integers or reals",
		"no unsafe code or cgo in the functions under contract (an unsafe conversion leaves the supported subset: fail closed)",
		"int/uint/uintptr are 64 bit (amd64/arm64)",
		"slice capacities <= 2^32 elements, allocation frontier < 2^62 (finite memory)",
		"closed world: interface values hold nil or a type declared in the loaded packages",
		"SMT solvers z3 4.8.12 / z3 5.1.0 / cvc5 1.0 are sound")
	var samples []groupReport
	wins := map[string]int{}
	for _, g := range res.groups {
		gr := groupReport{Name: g.name, Func: shortFn(g.obls[0].Func), Kind: g.obls[0].Kind, Pos: g.pos, Status: g.status(), N: len(g.obls)}
		for _, ob := range g.obls {
			gr.Millis += ob.Millis
			if ob.Trivial {
				gr.Trivial++
			}
			if ob.Size > gr.MaxSize {
				gr.MaxSize = ob.Size
			}
			if ob.Solver != "" {
				gr.Solver = ob.Solver
				wins[ob.Solver]++
			}
		}
		if len(samples) < 40 || gr.Status != "discharged" {
			samples = append(samples, gr)
		}
	}
	cov := map[string]interface{}{
		"obligations":                            res.nObl - res.known,
		"obligations_recorded_as_known_findings": res.known,
		"discharged":                             res.nDischarged,
		"obligation_instances":                   res.nInstances,
		"instances_by_simplifier":                res.nTrivial,
		"checker_cmd":                            fmt.Sprintf("/verif/bin/kvc check %s --tier %s", prop, o.tier),
		"trusted_base":                           assumptions,
		"samples":                                samples,
		"functions_under_contract":               fnames,
		"callees_via_contract":                   viaCt,
		"callees_inlined":                        inlined,
		"outside_reach":                          unsup,
		"loops_without_variant":                  uniq(noDecr),
		"unrolled_loops":                         uniq(bounded),
		"solver_wins":                            wins,
		"solver_seconds":                         float64(solverSeconds) / 1000,
		"known_findings_printed":                 res.known,
		"contract_lines":                         0,
	}
	if res.funcs != nil && len(res.funcs) > 0 {
		cov["contract_lines"] = res.funcs[0].Exec.P.contracts.nLines
	}
	for k, v := range res.extra {
		cov[k] = v
	}
	ev := map[string]interface{}{
		"property_id": prop,
		"tier":        o.tier,
		"seed":        o.seed,
		"level":       "proof",
		"coverage":    cov,
		"assumptions": assumptions,
		"wall_s":      res.wall,
		"violations":  res.violations,
	}
	if res.broken != "" {
		ev["broken"] = res.broken
	}
	b, _ := json.MarshalIndent(ev, "", " ")
	os.WriteFile(filepath.Join(verifDir, "evidence", prop+".json"), b, 0o644)
}

func cmdSelftest(args []string) int { return 2 }

// analyseInits executes each package initialiser symbolically and records package-level
// variables of scalar type that end up with a constant value and are never written (or
// have their address taken) anywhere else (DESIGN §2.3.8).
func (P *Program) analyseInits() error {
	P.globalInit = map[*ssa.Global][]uint64{}
	for _, sp := range P.ssaPkgs {
		initFn := sp.Func("init")
		if initFn == nil || len(initFn.Blocks) == 0 {
			continue
		}
		func() {
			e := newExec(P)
			e.rootFn = initFn
			e.initMode = true
			e.forceInline = true
			e.mute = 1
			defer func() {
				if r := recover(); r != nil {
					if u, ok := r.(unsupported); ok {
						if os.Getenv("KVC_DEBUG") != "" {
							fmt.Fprintf(os.Stderr, "init analysis of %s: %s\n", sp.Pkg.Path(), u.msg)
						}
						return
					}
					if _, ok := r.(cerr); ok {
						return
					}
					panic(r)
				}
			}()
			st := e.initState()
			e.stack = []*ssa.Function{initFn}
			outs := e.execFn(initFn, nil, nil, st, 0, nil)
			if os.Getenv("KVC_DEBUG") != "" {
				fmt.Fprintf(os.Stderr, "init analysis of %s: %d outcomes\n", sp.Pkg.Path(), len(outs))
			}
			if len(outs) != 1 {
				return
			}
			for _, m := range sp.Members {
				g, ok := m.(*ssa.Global)
				if !ok {
					continue
				}
				T := g.Type().(*types.Pointer).Elem()
				if len(P.lay.slots(T)) == 0 || len(P.lay.slots(T)) > 64 {
					continue
				}
				if _, isI := T.Underlying().(*types.Interface); isI {
					continue
				}
				if !globalIsConstant(sp, g, initFn) {
					continue
				}
				a := e.globalAddr(g)
				var vals []uint64
				okc := true
				for i, k := range P.lay.slots(T) {
					t := e.read(outs[0].st.h[k.heapIdx()], e.c.Add(a, e.c.Const(64, uint64(i))))
					if t.Op == OSelect && t.Args[0] == e.base[k.heapIdx()] {
						// never written by init: package-level variables start zeroed
						t = e.c.Const(k.width(), 0)
					}
					if !t.IsConst() {
						okc = false
						break
					}
					vals = append(vals, t.C)
				}
				v := []*Term{e.c.True}
				if os.Getenv("KVC_DEBUG") != "" {
					fmt.Fprintf(os.Stderr, "  global %s: const=%v %v\n", g.Name(), okc, e.c.Show(v[0]))
				}
				if okc {
					P.globalInit[g] = vals
				}
			}
		}()
	}
	return nil
}

// onlyLoaded: an address derived from a global is used for reading only.
func onlyLoaded(v ssa.Value) bool {
	refs := v.Referrers()
	if refs == nil {
		return false
	}
	for _, r := range *refs {
		switch x := r.(type) {
		case *ssa.UnOp:
			if x.Op != token.MUL {
				return false
			}
		case *ssa.FieldAddr:
			if !onlyLoaded(x) {
				return false
			}
		case *ssa.IndexAddr:
			if !onlyLoaded(x) {
				return false
			}
		case *ssa.DebugRef:
		default:
			return false
		}
	}
	return true
}

// globalIsConstant: outside init the global is only ever loaded.
func globalIsConstant(sp *ssa.Package, g *ssa.Global, initFn *ssa.Function) bool {
	ok := true
	check := func(fn *ssa.Function) {
		if fn == initFn {
			return
		}
		for _, b := range fn.Blocks {
			for _, in := range b.Instrs {
				for _, op := range in.Operands(nil) {
					if *op != ssa.Value(g) {
						continue
					}
					if u, isLoad := in.(*ssa.UnOp); isLoad && u.Op == token.MUL {
						continue
					}
					if fa, isFA := in.(*ssa.FieldAddr); isFA && onlyLoaded(fa) {
						continue
					}
					if ia, isIA := in.(*ssa.IndexAddr); isIA && onlyLoaded(ia) {
						continue
					}
					if _, isDbg := in.(*ssa.DebugRef); isDbg {
						continue
					}
					ok = false
				}
			}
		}
	}
	var visit func(fn *ssa.Function)
	visit = func(fn *ssa.Function) {
		check(fn)
		for _, an := range fn.AnonFuncs {
			visit(an)
		}
	}
	for _, m := range sp.Members {
		switch x := m.(type) {
		case *ssa.Function:
			visit(x)
		case *ssa.Type:
			for _, T := range []types.Type{x.Type(), types.NewPointer(x.Type())} {
				ms := sp.Prog.MethodSets.MethodSet(T)
				for i := 0; i < ms.Len(); i++ {
					if fn := sp.Prog.MethodValue(ms.At(i)); fn != nil && fn.Pkg == sp {
						visit(fn)
					}
				}
			}
		}
	}
	return ok
}

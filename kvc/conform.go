package main

// kvc conform <property>: differential validation of the verifier's own semantics. For every
// function under contract for the property and every reachable return path (the vacuity covers
// already yield one satisfying input per path), the solver is asked what the symbolic execution
// PREDICTS for the observable scalars of that path (results, pointees of pointer parameters) on
// that input; the real function is then run on the same input (go test -overlay) and the two
// are compared. A mismatch means go/ssa or kvc's instruction semantics disagree with the
// compiled code: the trusted base of every proof.

import (
	"flag"
	"fmt"
	"os"
	"runtime"
	"strings"
	"sync"

	"golang.org/x/tools/go/ssa"
)

func cmdConform(args []string) int {
	if len(args) < 1 {
		usage()
	}
	prop := args[0]
	fl := flag.NewFlagSet("conform", flag.ExitOnError)
	repo := fl.String("repo", "/repo", "repository")
	only := fl.String("only", "", "restrict to functions whose name contains this")
	max := fl.Int("max", 6, "return paths per function")
	rounds := fl.Int("rounds", 2, "inputs per return path (different pseudo-random preferences)")
	fl.Parse(args[1:])
	P, err := loadProgram(*repo)
	if err != nil {
		fmt.Println("kvc: cannot load repository:", err)
		return 2
	}
	cs, err := loadContracts(P)
	if err != nil {
		fmt.Println("kvc:", err)
		return 2
	}
	P.contracts = cs
	if err := P.analyseInits(); err != nil {
		fmt.Println("kvc:", err)
		return 2
	}
	agree, mism, skip, details := conformRun(P, prop, *only, *max, *rounds)
	for _, d := range details {
		fmt.Println(d)
	}
	fmt.Printf("kvc conform %s: %d return paths compared with the real code: %d agree, %d MISMATCH, %d skipped (nothing scalar to observe / abstraction on the path / input not constructible)\n", prop, agree+mism, agree, mism, skip)
	if mism > 0 {
		return 1
	}
	return 0
}

// conformRun compares, for every abstraction-free function under contract for prop, the
// predicted and the real observable scalars on solver-chosen (pseudo-randomised) inputs, one or
// more per return path.
func conformRun(P *Program, prop, only string, max, rounds int) (agree, mism, skip int, details []string) {
	var fns []*ssa.Function
	for _, f := range funcsFor(P, prop) {
		if only == "" || strings.Contains(shortFn(f.String()), only) {
			fns = append(fns, f)
		}
	}
	type row struct {
		fn, verdict, detail string
	}
	var mu sync.Mutex
	var rows []row
	var wg sync.WaitGroup
	sem := make(chan struct{}, runtime.NumCPU())
	for _, fn := range fns {
		wg.Add(1)
		go func(fn *ssa.Function) {
			defer wg.Done()
			sem <- struct{}{}
			defer func() { <-sem }()
			// callees are inlined (no contract in between); a function that still meets an
			// abstraction (a callee with loops, an invariant-cut loop, an assumed external) is not
			// comparable: the model is free to pick any value the abstraction allows
			res := verifyFunctionOpt(P, fn, []string{prop}, func(e *Exec) { e.forceInline = true })
			if res.Unsup != "" || res.Exec.abstractions > 0 {
				mu.Lock()
				rows = append(rows, row{fn: shortFn(fn.String()), verdict: "skipped", detail: "passes through a contract, a cut loop or an assumed external"})
				mu.Unlock()
				return
			}
			n := 0
			for _, ob := range res.Obls {
				if ob.Kind != "cover.return" || ob.retSt == nil || n >= max {
					continue
				}
				n++
				for round := 0; round < rounds; round++ {
					conformSalt = uint64(round)*7919 + uint64(n)
					rf := &replayFile{Property: prop, Obligation: ob.Name, Kind: ob.Kind}
					src, testName, why := buildReplayTest(P, ob.exec, fn, ob, rf)
					r := row{fn: shortFn(fn.String())}
					if src == "" {
						r.verdict, r.detail = "skipped", why
					} else {
						rf.TestSource, rf.TestName = src, testName
						if os.Getenv("KVC_CONFORM_DUMP") != "" {
							fmt.Println(src)
						}
						rf.Package = fn.Pkg.Pkg.Path()
						rf.PkgDir = strings.TrimPrefix(rf.Package, modPath+"/")
						runReplayTest(P.repo, rf)
						switch rf.Verdict {
						case "confirmed":
							r.verdict = "MISMATCH"
						case "not-reproduced":
							r.verdict = "agree"
						default:
							r.verdict = "skipped"
						}
						for _, l := range strings.Split(rf.ReplayOut, "\n") {
							if strings.HasPrefix(l, "KVC-REPLAY:") {
								r.detail = l
							}
						}
						if r.verdict == "skipped" {
							r.detail = rf.Note
						}
					}
					mu.Lock()
					rows = append(rows, r)
					mu.Unlock()
				}
			}
		}(fn)
	}
	wg.Wait()
	for _, r := range rows {
		switch r.verdict {
		case "agree":
			agree++
		case "MISMATCH":
			mism++
			details = append(details, fmt.Sprintf("MISMATCH %s: %s", r.fn, r.detail))
		default:
			skip++
			if os.Getenv("KVC_DEBUG") != "" {
				details = append(details, fmt.Sprintf("skipped %s: %s", r.fn, r.detail))
			}
		}
	}
	return
}

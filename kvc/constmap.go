package main

// Constant maps: a package-level map[string]I built by a composite literal in the package
// initialiser and never written afterwards (checked syntactically over every function of the
// loaded module packages). Its content is read off the initialiser's SSA on every run, so the
// verified table is the one the program builds. Lookups fork over the entries; range yields
// some key of the table at every step (any order, repetitions not excluded: an
// over-approximation of the runtime's iteration order) for exactly len(table) steps.
//
// reflect.TypeOf / Type.Elem / reflect.New / Value.Interface are assumed contracts over the
// verifier's type tags (fresh zeroed allocation of the element type).

import (
	"fmt"
	"go/constant"
	"go/token"
	"go/types"
	"regexp"
	"sort"
	"strings"
	"sync"

	"golang.org/x/tools/go/ssa"
)

type constMapEntry struct {
	key string
	vt  types.Type // dynamic type of the value (a pointer type for new(T))
	pos token.Pos
}

type constMapInfo struct {
	entries []constMapEntry
	err     string
}

var constMapMu sync.Mutex

func (P *Program) constMapOf(g *ssa.Global) *constMapInfo {
	constMapMu.Lock()
	defer constMapMu.Unlock()
	if P.constMaps == nil {
		P.constMaps = map[*ssa.Global]*constMapInfo{}
	}
	if ci, ok := P.constMaps[g]; ok {
		return ci
	}
	ci := &constMapInfo{}
	P.constMaps[g] = ci
	initFn := g.Pkg.Func("init")
	if initFn == nil {
		ci.err = "no initialiser"
		return ci
	}
	var mm *ssa.MakeMap
	for _, b := range initFn.Blocks {
		for _, in := range b.Instrs {
			if s, ok := in.(*ssa.Store); ok && s.Addr == ssa.Value(g) {
				v := s.Val
				if ct, ok := v.(*ssa.ChangeType); ok {
					v = ct.X
				}
				m, ok := v.(*ssa.MakeMap)
				if !ok || mm != nil {
					ci.err = "global is not initialised by exactly one map literal"
					return ci
				}
				mm = m
			}
		}
	}
	if mm == nil {
		ci.err = "no map literal stored to the global"
		return ci
	}
	seen := map[string]bool{}
	for _, r := range *mm.Referrers() {
		switch x := r.(type) {
		case *ssa.MapUpdate:
			k, ok := x.Key.(*ssa.Const)
			if !ok || k.Value == nil || k.Value.Kind() != constant.String {
				ci.err = "non-constant key"
				return ci
			}
			mi, ok := x.Value.(*ssa.MakeInterface)
			if !ok {
				ci.err = "value is not a freshly boxed object"
				return ci
			}
			al, ok := mi.X.(*ssa.Alloc)
			if !ok || !al.Heap {
				ci.err = "value is not new(T)"
				return ci
			}
			for _, ar := range *al.Referrers() {
				switch ar.(type) {
				case *ssa.MakeInterface, *ssa.DebugRef:
				default:
					ci.err = "prototype object is written by the initialiser"
					return ci
				}
			}
			key := constant.StringVal(k.Value)
			if seen[key] {
				ci.err = "duplicate key " + key
				return ci
			}
			seen[key] = true
			ci.entries = append(ci.entries, constMapEntry{key: key, vt: mi.X.Type(), pos: x.Pos()})
		case *ssa.Store, *ssa.ChangeType, *ssa.DebugRef:
		default:
			ci.err = fmt.Sprintf("map literal escapes in the initialiser (%T)", r)
			return ci
		}
	}
	// immutability outside the initialiser
	bad := ""
	var visit func(fn *ssa.Function)
	visit = func(fn *ssa.Function) {
		if fn == nil || fn == initFn {
			return
		}
		for _, b := range fn.Blocks {
			for _, in := range b.Instrs {
				for _, op := range in.Operands(nil) {
					if *op != ssa.Value(g) {
						continue
					}
					ld, isLoad := in.(*ssa.UnOp)
					if _, dbg := in.(*ssa.DebugRef); dbg {
						continue
					}
					if !isLoad || ld.Op != token.MUL {
						bad = fmt.Sprintf("%s uses the address of the map variable", fn)
						continue
					}
					for _, r := range *ld.Referrers() {
						switch u := r.(type) {
						case *ssa.Lookup, *ssa.Range, *ssa.DebugRef:
						case *ssa.Call:
							if bi, ok := u.Call.Value.(*ssa.Builtin); !ok || bi.Name() != "len" {
								bad = fmt.Sprintf("%s passes the map to %v", fn, u.Call.Value)
							}
						default:
							bad = fmt.Sprintf("%s: map used by %T", fn, r)
						}
					}
				}
			}
		}
		for _, an := range fn.AnonFuncs {
			visit(an)
		}
	}
	for _, sp := range P.ssaPkgs {
		for _, m := range sp.Members {
			switch x := m.(type) {
			case *ssa.Function:
				visit(x)
			case *ssa.Type:
				for _, T := range []types.Type{x.Type(), types.NewPointer(x.Type())} {
					ms := sp.Prog.MethodSets.MethodSet(T)
					for i := 0; i < ms.Len(); i++ {
						visit(sp.Prog.MethodValue(ms.At(i)))
					}
				}
			}
		}
	}
	if bad != "" {
		ci.err = bad
	}
	return ci
}

func mapGlobalOf(v ssa.Value) *ssa.Global {
	if ct, ok := v.(*ssa.ChangeType); ok {
		v = ct.X
	}
	if u, ok := v.(*ssa.UnOp); ok && u.Op == token.MUL {
		if g, ok := u.X.(*ssa.Global); ok {
			return g
		}
	}
	return nil
}

func (e *Exec) constMapFor(v ssa.Value, what string) (*ssa.Global, []constMapEntry) {
	g := mapGlobalOf(v)
	if g == nil {
		e.fail("%s on a map that is not a package-level constant table", what)
	}
	ci := e.P.constMapOf(g)
	if ci.err != "" {
		e.fail("%s: %s is not a constant table: %s", what, g.Name(), ci.err)
	}
	e.assumed["constant table "+g.Name()+": content read from the initialiser's SSA, immutability checked syntactically (only len, lookup and range outside init)"] = true
	return g, ci.entries
}

// protoAddr: the address of the i-th prototype object: pre-existing, non-nil, pairwise distinct.
func (e *Exec) protoAddr(g *ssa.Global, i int, T types.Type) *Term {
	c := e.c
	name := fmt.Sprintf("M.%s.%d", g.Name(), i)
	a := c.Var(name, BV(64))
	if _, ok := e.regions[a]; !ok {
		n := uint64(1)
		if p, ok := T.Underlying().(*types.Pointer); ok {
			if k := e.elemSlots(p.Elem()); k > 0 {
				n = k
			}
		}
		e.registerInput(a, c.Const(64, n))
		e.regions[a].global = true
		e.axioms = append(e.axioms, c.Ule(c.Const(64, 1), a), c.Ule(c.Add(a, c.Const(64, n)), e.brk0), c.Ult(a, e.brk0))
	}
	return a
}

func (e *Exec) strEqConst(st State, s Val, k string) *Term {
	c := e.c
	cs := []*Term{c.Eq(s[1], c.Const(64, uint64(len(k))))}
	for i := 0; i < len(k); i++ {
		cs = append(cs, c.Eq(e.read(st.h[0], c.Add(s[0], c.Const(64, uint64(i)))), c.Const(8, uint64(k[i]))))
	}
	return c.And(cs...)
}

func (e *Exec) constMapValue(g *ssa.Global, i int, en constMapEntry) Val {
	return Val{e.c.Const(64, e.P.tag(en.vt)), e.protoAddr(g, i, en.vt)}
}

func (e *Exec) mapLookupConst(fr *Frame, st State, in *ssa.Lookup) []Outcome {
	c := e.c
	g, ents := e.constMapFor(in.X, "map lookup")
	key := e.operand(fr, &st, in.Index)
	var outs []Outcome
	var none []*Term
	for i, en := range ents {
		eq := e.strEqConst(st, key, en.key)
		none = append(none, c.Not(eq))
		s2 := st.branch(eq)
		ret := e.constMapValue(g, i, en)
		if in.CommaOk {
			ret = append(ret, c.True)
		}
		outs = append(outs, Outcome{st: s2, ret: ret})
	}
	s3 := st.branch(c.And(none...))
	ret := e.zeroVal(in.X.Type().Underlying().(*types.Map).Elem())
	if in.CommaOk {
		ret = append(append(Val{}, ret...), c.False)
	}
	outs = append(outs, Outcome{st: s3, ret: ret})
	return outs
}

// inTable: key equals one of the table's keys.
func (e *Exec) inTable(st State, ents []constMapEntry, key Val) *Term {
	// equal to a key by identity (the constant key string itself) or by content
	c := e.c
	var ds []*Term
	for _, en := range ents {
		kc := e.strConst(en.key)
		ds = append(ds, c.And(c.Eq(key[0], kc[0]), c.Eq(key[1], kc[1])))
	}
	for _, en := range ents {
		ds = append(ds, e.strEqConst(st, key, en.key))
	}
	return c.Or(ds...)
}

type mapIter struct {
	g     *ssa.Global
	ents  []constMapEntry
	count int
}

func (e *Exec) rangeConst(fr *Frame, st *State, in *ssa.Range) Val {
	if _, ok := in.X.Type().Underlying().(*types.Map); !ok {
		e.fail("range over %v not supported", in.X.Type())
	}
	g, ents := e.constMapFor(in.X, "range")
	if fr.iters == nil {
		fr.iters = map[ssa.Value]*mapIter{}
	}
	fr.iters[in] = &mapIter{g: g, ents: ents}
	return Val{e.c.Const(64, 0)}
}

func (e *Exec) nextConst(fr *Frame, st State, in *ssa.Next) []Outcome {
	c := e.c
	it := fr.iters[in.Iter]
	if it == nil {
		e.fail("next on an unknown iterator")
	}
	mt := in.Iter.(*ssa.Range).X.Type().Underlying().(*types.Map)
	zeroK, zeroV := e.zeroVal(mt.Key()), e.zeroVal(mt.Elem())
	if it.count >= len(it.ents) {
		ret := append(append(Val{c.False}, zeroK...), zeroV...)
		return []Outcome{{st: st, ret: ret}}
	}
	it.count++
	// some key of the table; the value component is only supported when it is unused
	for _, r := range *in.Referrers() {
		if ex, ok := r.(*ssa.Extract); ok && ex.Index == 2 && ex.Referrers() != nil && len(*ex.Referrers()) > 0 {
			e.fail("range over a constant table with the value in use is not supported")
		}
	}
	// the key is one of the table's constant key strings
	k := Val{c.Fresh("mapkey.ptr", BV(64)), c.Fresh("mapkey.len", BV(64))}
	var ds []*Term
	for _, en := range it.ents {
		kc := e.strConst(en.key)
		ds = append(ds, c.And(c.Eq(k[0], kc[0]), c.Eq(k[1], kc[1])))
	}
	s2 := st.assume(c.Or(ds...))
	w := e.strConst(it.ents[it.count-1].key)
	e.hints = append(e.hints, c.Eq(k[0], w[0]), c.Eq(k[1], w[1]))
	for i, en := range it.ents {
		// and one concrete placement of the key constants
		e.hintOnce(c.Eq(e.strConst(en.key)[0], c.Const(64, uint64(0x100000+64*i))))
	}
	ret := append(append(Val{c.True}, k...), zeroV...)
	return []Outcome{{st: s2, ret: ret}}
}

// ---------- reflect (assumed contracts over type tags) ----------

var rtypeTag = types.NewPointer(types.NewNamed(types.NewTypeName(token.NoPos, nil, "reflect.rtype", nil), types.NewStruct(nil, nil), nil))

func (e *Exec) reflectExternal(fr *Frame, st State, name string, args []Val) ([]Outcome, bool) {
	c := e.c
	switch name {
	case "reflect.TypeOf":
		e.assumed["assumed contract: reflect.TypeOf/Type.Elem/reflect.New/Value.Interface over the verifier's type tags (New returns a fresh zeroed object of the element type)"] = true
		return []Outcome{{st: st, ret: Val{c.Const(64, e.P.tag(rtypeTag)), args[0][0]}}}, true
	case "reflect.New":
		tag := e.peelIte(st, args[0][1])
		if !tag.IsConst() {
			e.fail("reflect.New of a type that is not known on this path")
		}
		T := e.P.typeOfTag(tag.C)
		if T == nil {
			e.fail("reflect.New: unknown type tag")
		}
		n := e.elemSlots(T)
		s2, a := e.alloc(st, c.Const(64, n), "reflect.new")
		s2 = e.zeroRange(s2, T, a, c.Const(64, 1))
		pt := types.NewPointer(T)
		// reflect.Value{typ, ptr, flag}
		return []Outcome{{st: s2, ret: Val{c.Const(64, e.P.tag(pt)), a, c.Const(64, 0)}}}, true
	case "(reflect.Value).Interface":
		v := args[0]
		return []Outcome{{st: st, ret: Val{v[0], v[1]}}}, true
	}
	return nil, false
}

func (e *Exec) reflectInvoke(st State, method string, recv Val) ([]Outcome, bool) {
	c := e.c
	if method != "Elem" {
		return nil, false
	}
	tag := e.peelIte(st, recv[1])
	if !tag.IsConst() {
		e.fail("reflect.Type.Elem of a type that is not known on this path")
	}
	T := e.P.typeOfTag(tag.C)
	p, ok := T.Underlying().(*types.Pointer)
	if !ok {
		e.fail("reflect.Type.Elem of non-pointer %v", T)
	}
	return []Outcome{{st: st, ret: Val{c.Const(64, e.P.tag(rtypeTag)), c.Const(64, e.P.tag(p.Elem()))}}}, true
}

// ---------- ground table obligations (property C19) ----------

var regKeyForm = regexp.MustCompile(`^[0-9]+\.[0-9]{3}$`)

func tableObligations(P *Program, prop string, g *ssa.Global) []*Obligation {
	ci := P.constMapOf(g)
	var out []*Obligation
	mk := func(name, goal string, ok bool, pos token.Pos, detail string) {
		ob := &Obligation{Name: "dpt.dptTypes#" + name, Kind: "table", Func: "dpt.init", Goal: goal, Props: []string{prop},
			Trivial: true, Solver: "evaluation", Pos: P.pos(pos)}
		if ok {
			ob.Result = "unsat"
		} else {
			ob.Result = "sat"
			ob.Output = detail
		}
		out = append(out, ob)
	}
	if ci.err != "" {
		mk("table.constant", "the registry is a constant table", false, g.Pos(), ci.err)
		return out
	}
	mk("table.constant", "the registry is built by one map literal and only read afterwards", true, g.Pos(), "")
	typeNames := map[string]bool{}
	for _, en := range ci.entries {
		ok := regKeyForm.MatchString(en.key)
		mk("table.keyform:"+en.key, fmt.Sprintf("key %q has the form main.sub with a three-digit sub-number", en.key), ok, en.pos, "key "+en.key)
		want := "DPT_" + strings.Replace(en.key, ".", "", 1)
		got := ""
		if p, isP := en.vt.(*types.Pointer); isP {
			if n, isN := p.Elem().(*types.Named); isN {
				got = n.Obj().Name()
			}
		}
		typeNames[got] = true
		mk("table.typed:"+en.key, fmt.Sprintf("key %q is registered with *%s", en.key, want), got == want, en.pos, fmt.Sprintf("key %s is registered with *%s", en.key, got))
	}
	// completeness: every exported DPT_* type of the package that implements Datapoint
	scope := g.Pkg.Pkg.Scope()
	var dp *types.Interface
	if o := scope.Lookup("Datapoint"); o != nil {
		dp, _ = o.Type().Underlying().(*types.Interface)
	}
	names := scope.Names()
	sort.Strings(names)
	for _, n := range names {
		tn, ok := scope.Lookup(n).(*types.TypeName)
		if !ok || !strings.HasPrefix(n, "DPT_") || !tn.Exported() {
			continue
		}
		if dp != nil && !types.Implements(types.NewPointer(tn.Type()), dp) {
			mk("table.complete:"+n, fmt.Sprintf("exported type %s implements Datapoint", n), false, tn.Pos(), n+" does not implement Datapoint")
			continue
		}
		mk("table.complete:"+n, fmt.Sprintf("exported type %s is reachable through the registry", n), typeNames[n], tn.Pos(), n+" is not registered")
	}
	return out
}

func (e *Exec) hintOnce(t *Term) {
	for _, h := range e.hints {
		if h == t {
			return
		}
	}
	e.hints = append(e.hints, t)
}

package main

// Contract files: comment-only Go files (//go:build verif) in /repo holding //@ blocks.

import (
	"fmt"
	"go/ast"
	"go/parser"
	"go/token"
	"go/types"
	"os"
	"path/filepath"
	"sort"
	"strconv"
	"strings"
	"sync"

	"golang.org/x/tools/go/ssa"
)

type Clause struct {
	Label string
	Text  string
	X     Expr
	Line  string // file:line
	Props []string
}

type LoopContract struct {
	Steps      []Clause // per-iteration obligations at the back edge; prev(e) = e at the loop head
	GhostKinds []string // ghost kinds the loop body may change (others must stay as they are)
	HasGhost   bool
	Invariants []Clause
	Decreases  *Clause
	Unroll     int
	Assigns    []Expr
	HasAssigns bool
}

type Yield struct {
	Name string
	Args []Expr
	Val  Expr
	Line string
}

type FuncContract struct {
	Key        string
	Pkg        string
	Recv       string
	Params     []string // receiver first (if any), then parameters
	Results    []string
	Props      []string
	Decoder    bool
	Encoder    bool
	Inline     bool
	Trusted    bool
	Timeout    int      // solver seconds for this function's obligations in the quick tier
	Prune      bool     // ask the solver at every fork which branches are feasible
	Thorough   bool     // verified in the thorough tier only (slow obligations)
	Exact      bool     // verify against callee bodies instead of callee contracts
	Pure       bool     // side-effect free and loop free: calls are merged into one outcome
	Lets       []Clause // Label = name
	Requires   []Clause
	Ensures    []Clause
	Assigns    []Expr
	HasAssigns bool
	Loops      map[int]*LoopContract
	Line       string
	// interface template
	Iface      string
	Method     string
	DetWhen    Expr
	Determines []Expr      // byte ranges whose final content must not depend on their initial content
	Yields     []Yield     // results that are functions of the arguments alone: name(args) == expr
	GhostKeys  []ghostItem // object-specific ghost effects: kind(expr)
	ModGhost   bool        // the function has environment effects (sends, spawns, locks ...)
	NoTerm     bool        // loops may omit decreases (environment loops)
	Ghost      []string
}

func (ct *FuncContract) usable() bool {
	return ct != nil && (len(ct.Ensures) > 0 || ct.HasAssigns || len(ct.Requires) > 0)
}

type ghostItem struct {
	Kind string
	Arg  Expr
}

// splitGhostItems splits on blanks outside parentheses.
func splitGhostItems(s string) []string {
	var out []string
	depth, last := 0, 0
	for i := 0; i <= len(s); i++ {
		if i == len(s) || (s[i] == ' ' && depth == 0) {
			if strings.TrimSpace(s[last:i]) != "" {
				out = append(out, strings.TrimSpace(s[last:i]))
			}
			last = i + 1
			continue
		}
		if s[i] == '(' {
			depth++
		} else if s[i] == ')' {
			depth--
		}
	}
	return out
}

type SpecFun struct {
	Name   string
	Params []string
	PTypes []string
	RType  string
	Body   Expr
	Pkg    string
}

type ContractSet struct {
	byKey     map[string]*FuncContract
	templates []*FuncContract
	specs     map[string]*SpecFun // pkg.name and name
	files     []string
	merged    map[*ssa.Function]*FuncContract
	consts    map[string]string
	nLines    int
}

var ctMu sync.Mutex

func (cs *ContractSet) lookup(P *Program, fn *ssa.Function) *FuncContract {
	if cs == nil {
		return nil
	}
	ctMu.Lock()
	defer ctMu.Unlock()
	if ct, ok := cs.merged[fn]; ok {
		return ct
	}
	own := cs.byKey[fn.String()]
	var out *FuncContract
	if own != nil {
		cp := *own
		out = &cp
	}
	// interface templates apply to declared (non-synthetic) methods
	if fn.Signature.Recv() != nil && fn.Synthetic == "" {
		RT := fn.Signature.Recv().Type()
		for _, t := range cs.templates {
			if t.Method != fn.Name() {
				continue
			}
			it := P.lookupIface(t.Iface)
			if it == nil {
				continue
			}
			if !types.Implements(RT, it) && !types.Implements(types.NewPointer(RT), it) {
				continue
			}
			if out == nil {
				out = &FuncContract{Key: fn.String(), Pkg: t.Pkg, Loops: map[int]*LoopContract{}, Line: t.Line}
				// names: self + template param names
				out.Params = append([]string{"self"}, t.Params[1:]...)
				out.Results = t.Results
			}
			// re-bind template names onto this contract's names positionally
			ren := map[string]string{}
			for i, n := range t.Params {
				if i < len(out.Params) {
					ren[n] = out.Params[i]
				}
			}
			for i, n := range t.Results {
				if i < len(out.Results) {
					ren[n] = out.Results[i]
				}
			}
			for _, c := range t.Requires {
				out.Requires = append(out.Requires, renameClause(c, ren))
			}
			for _, c := range t.Ensures {
				out.Ensures = append(out.Ensures, renameClause(c, ren))
			}
			for _, a := range t.Assigns {
				out.Assigns = append(out.Assigns, renameExpr(a, ren))
			}
			out.HasAssigns = out.HasAssigns || t.HasAssigns
			for _, a := range t.Determines {
				out.Determines = append(out.Determines, renameExpr(a, ren))
			}
			if t.DetWhen != nil {
				out.DetWhen = renameExpr(t.DetWhen, ren)
			}
			out.Props = uniq(append(out.Props, t.Props...))
			out.Pure = out.Pure || t.Pure
			out.ModGhost = out.ModGhost || t.ModGhost
			out.Decoder = out.Decoder || t.Decoder
			out.Encoder = out.Encoder || t.Encoder
		}
	}
	cs.merged[fn] = out
	return out
}

func uniq(xs []string) []string {
	m := map[string]bool{}
	var out []string
	for _, x := range xs {
		if !m[x] {
			m[x] = true
			out = append(out, x)
		}
	}
	sort.Strings(out)
	return out
}

func renameClause(c Clause, ren map[string]string) Clause {
	c.X = renameExpr(c.X, ren)
	return c
}

func (P *Program) lookupIface(q string) *types.Interface {
	i := strings.LastIndex(q, ".")
	if i < 0 {
		return nil
	}
	sp, ok := P.ssaPkgs[q[:i]]
	if !ok {
		return nil
	}
	o := sp.Pkg.Scope().Lookup(q[i+1:])
	if o == nil {
		return nil
	}
	it, _ := o.Type().Underlying().(*types.Interface)
	return it
}

func loadContracts(P *Program) (*ContractSet, error) {
	cs := &ContractSet{byKey: map[string]*FuncContract{}, specs: map[string]*SpecFun{},
		merged: map[*ssa.Function]*FuncContract{}, consts: map[string]string{}}
	var files []string
	for short, sp := range P.ssaPkgs {
		_ = sp
		dir := filepath.Join(P.repo, "knx", short)
		if short == "knx" {
			dir = filepath.Join(P.repo, "knx")
		}
		ms, _ := filepath.Glob(filepath.Join(dir, "zz_contracts*_verif.go"))
		files = append(files, ms...)
	}
	sort.Strings(files)
	for _, f := range files {
		if err := cs.parseFile(P, f); err != nil {
			return nil, err
		}
	}
	cs.files = files
	return cs, nil
}

func pkgOfFile(P *Program, file string) (short string, path string) {
	dir := filepath.Dir(file)
	rel, _ := filepath.Rel(filepath.Join(P.repo, "knx"), dir)
	if rel == "." {
		return "knx", modPath + "/knx"
	}
	return rel, modPath + "/knx/" + rel
}

var clauseWords = map[string]bool{"props": true, "decoder": true, "encoder": true, "inline": true,
	"trusted": true, "requires": true, "ensures": true, "assigns": true, "let": true, "loop": true,
	"noterm": true, "ghost": true, "determines": true, "pure": true, "exact": true, "timeout": true, "prune": true, "thorough": true, "yields": true}

func (cs *ContractSet) parseFile(P *Program, file string) error {
	data, err := os.ReadFile(file)
	if err != nil {
		return err
	}
	short, path := pkgOfFile(P, file)
	lines := strings.Split(string(data), "\n")
	type raw struct {
		text string
		line int
	}
	var items []raw // logical lines (continuations joined)
	for i, l := range lines {
		t := strings.TrimSpace(l)
		if !strings.HasPrefix(t, "//@") {
			continue
		}
		cs.nLines++
		body := strings.TrimSpace(strings.TrimPrefix(t, "//@"))
		if body == "" || strings.HasPrefix(body, "--") {
			continue
		}
		if k := strings.Index(body, " -- "); k >= 0 {
			body = strings.TrimSpace(body[:k])
		}
		w := strings.Fields(body)[0]
		if w == "func" || w == "method" || w == "spec" || w == "const" || clauseWords[w] {
			items = append(items, raw{body, i + 1})
		} else if len(items) > 0 {
			items[len(items)-1].text += " " + body
		} else {
			return fmt.Errorf("%s:%d: stray contract line", file, i+1)
		}
	}
	var cur *FuncContract
	for _, it := range items {
		where := fmt.Sprintf("%s:%d", strings.TrimPrefix(file, P.repo+"/"), it.line)
		w := strings.Fields(it.text)[0]
		rest := strings.TrimSpace(strings.TrimPrefix(it.text, w))
		switch w {
		case "func", "method":
			ct := &FuncContract{Pkg: short, Loops: map[int]*LoopContract{}, Line: where}
			sig := rest
			if w == "method" {
				// method <pkg.Iface> <Name>(params) (results)
				f := strings.Fields(rest)
				ct.Iface = f[0]
				sig = "(self " + "T) " + strings.TrimSpace(strings.TrimPrefix(rest, f[0]))
			}
			fd, err := parseSig(sig)
			if err != nil {
				return fmt.Errorf("%s: bad signature %q: %v", where, sig, err)
			}
			if fd.Recv != nil && len(fd.Recv.List) == 1 {
				r := fd.Recv.List[0]
				name := "self"
				if len(r.Names) == 1 {
					name = r.Names[0].Name
				}
				ct.Params = append(ct.Params, name)
				ct.Recv = exprString(r.Type)
			}
			for _, f := range fd.Type.Params.List {
				if len(f.Names) == 0 {
					ct.Params = append(ct.Params, "_")
				}
				for _, n := range f.Names {
					ct.Params = append(ct.Params, n.Name)
				}
			}
			if fd.Type.Results != nil {
				for i, f := range fd.Type.Results.List {
					if len(f.Names) == 0 {
						ct.Results = append(ct.Results, fmt.Sprintf("result%d", i))
					}
					for _, n := range f.Names {
						ct.Results = append(ct.Results, n.Name)
					}
				}
			}
			if w == "method" {
				ct.Method = fd.Name.Name
				cs.templates = append(cs.templates, ct)
			} else {
				switch {
				case ct.Recv == "":
					ct.Key = path + "." + fd.Name.Name
				case strings.HasPrefix(ct.Recv, "*"):
					ct.Key = "(*" + path + "." + ct.Recv[1:] + ")." + fd.Name.Name
				default:
					ct.Key = "(" + path + "." + ct.Recv + ")." + fd.Name.Name
				}
				if strings.Contains(fd.Name.Name, "$") {
					ct.Key = path + "." + fd.Name.Name
				}
				if _, ok := P.funcs[ct.Key]; !ok {
					return fmt.Errorf("%s: contract for unknown function %s", where, ct.Key)
				}
				if _, dup := cs.byKey[ct.Key]; dup {
					return fmt.Errorf("%s: duplicate contract for %s", where, ct.Key)
				}
				cs.byKey[ct.Key] = ct
			}
			cur = ct
		case "spec":
			sf, err := parseSpec(rest, short)
			if err != nil {
				return fmt.Errorf("%s: %v", where, err)
			}
			cs.specs[short+"."+sf.Name] = sf
			cur = nil
		case "const":
			f := strings.SplitN(rest, "=", 2)
			if len(f) != 2 {
				return fmt.Errorf("%s: bad const", where)
			}
			cs.consts[short+"."+strings.TrimSpace(f[0])] = strings.TrimSpace(f[1])
		default:
			if cur == nil {
				return fmt.Errorf("%s: clause outside func block", where)
			}
			if err := cur.addClause(w, rest, where); err != nil {
				return fmt.Errorf("%s: %v", where, err)
			}
		}
	}
	return nil
}

func parseSig(sig string) (*ast.FuncDecl, error) {
	src := "package p\nfunc " + sig + "\n"
	f, err := parser.ParseFile(token.NewFileSet(), "sig.go", src, 0)
	if err != nil {
		return nil, err
	}
	for _, d := range f.Decls {
		if fd, ok := d.(*ast.FuncDecl); ok {
			return fd, nil
		}
	}
	return nil, fmt.Errorf("no function")
}

func exprString(x ast.Expr) string {
	switch t := x.(type) {
	case *ast.StarExpr:
		return "*" + exprString(t.X)
	case *ast.Ident:
		return t.Name
	case *ast.SelectorExpr:
		return exprString(t.X) + "." + t.Sel.Name
	}
	return "?"
}

func labelOf(rest string) (string, string) {
	rest = strings.TrimSpace(rest)
	if strings.HasPrefix(rest, "[") {
		if k := strings.Index(rest, "]"); k > 0 {
			return strings.TrimSpace(rest[1:k]), strings.TrimSpace(rest[k+1:])
		}
	}
	return "", rest
}

func (ct *FuncContract) addClause(w, rest, where string) error {
	switch w {
	case "props":
		ct.Props = uniq(append(ct.Props, strings.Fields(rest)...))
	case "decoder":
		ct.Decoder = true
	case "encoder":
		ct.Encoder = true
	case "inline":
		ct.Inline = true
	case "trusted":
		ct.Trusted = true
	case "pure":
		ct.Pure = true
	case "exact":
		ct.Exact = true
	case "prune":
		ct.Prune = true
	case "thorough":
		ct.Thorough = true
	case "timeout":
		n, err := strconv.Atoi(strings.TrimSpace(rest))
		if err != nil {
			return err
		}
		ct.Timeout = n
	case "noterm":
		ct.NoTerm = true
	case "ghost":
		ct.ModGhost = true
		for _, item := range splitGhostItems(rest) {
			if strings.Contains(item, "(") {
				x, err := parseExpr(item)
				if err != nil {
					return fmt.Errorf("ghost item %q: %v", item, err)
				}
				call, ok := x.(ECall)
				id, ok2 := call.Fun.(EIdent)
				if !ok || !ok2 || len(call.Args) != 1 {
					return fmt.Errorf("ghost item %q: kind(expr) expected", item)
				}
				ct.GhostKeys = append(ct.GhostKeys, ghostItem{id.Name, call.Args[0]})
			} else {
				ct.Ghost = append(ct.Ghost, item)
			}
		}
	case "requires", "ensures":
		lab, txt := labelOf(rest)
		var props []string
		// optional "{C01 C02}" property tags after the label
		if strings.HasPrefix(txt, "{") {
			if k := strings.Index(txt, "}"); k > 0 {
				props = strings.Fields(txt[1:k])
				txt = strings.TrimSpace(txt[k+1:])
			}
		}
		x, err := parseExpr(txt)
		if err != nil {
			return fmt.Errorf("%s %q: %v", w, txt, err)
		}
		cl := Clause{Label: lab, Text: txt, X: x, Line: where, Props: props}
		if w == "requires" {
			ct.Requires = append(ct.Requires, cl)
		} else {
			ct.Ensures = append(ct.Ensures, cl)
		}
	case "let":
		f := strings.SplitN(rest, "=", 2)
		if len(f) != 2 {
			return fmt.Errorf("bad let")
		}
		// careful with '==' inside: split at first single '='
		name, body := splitLet(rest)
		x, err := parseExpr(body)
		if err != nil {
			return fmt.Errorf("let %q: %v", body, err)
		}
		ct.Lets = append(ct.Lets, Clause{Label: name, Text: body, X: x, Line: where})
	case "assigns":
		ct.HasAssigns = true
		if strings.TrimSpace(rest) == "nothing" {
			return nil
		}
		for _, part := range splitTop(rest, ',') {
			x, err := parseExpr(part)
			if err != nil {
				return fmt.Errorf("assigns %q: %v", part, err)
			}
			ct.Assigns = append(ct.Assigns, x)
		}
	case "yields":
		x, err := parseExpr(rest)
		if err != nil {
			return fmt.Errorf("yields: %v", err)
		}
		b, ok := x.(EBinary)
		if !ok || b.Op != "==" {
			return fmt.Errorf("yields: expected name(args) == expr")
		}
		call, ok := b.X.(ECall)
		if !ok {
			return fmt.Errorf("yields: expected name(args) == expr")
		}
		id, ok := call.Fun.(EIdent)
		if !ok {
			return fmt.Errorf("yields: expected name(args) == expr")
		}
		ct.Yields = append(ct.Yields, Yield{Name: id.Name, Args: call.Args, Val: b.Y})
	case "determines":
		if k := strings.Index(rest, " when "); k >= 0 {
			x, err := parseExpr(rest[k+6:])
			if err != nil {
				return fmt.Errorf("determines condition: %v", err)
			}
			ct.DetWhen = x
			rest = rest[:k]
		}
		for _, part := range splitTop(rest, ',') {
			x, err := parseExpr(part)
			if err != nil {
				return fmt.Errorf("determines %q: %v", part, err)
			}
			ct.Determines = append(ct.Determines, x)
		}
	case "loop":
		f := strings.Fields(rest)
		if len(f) < 2 {
			return fmt.Errorf("bad loop clause")
		}
		n, err := strconv.Atoi(strings.TrimSuffix(f[0], ":"))
		if err != nil {
			return fmt.Errorf("bad loop ordinal")
		}
		lc := ct.Loops[n]
		if lc == nil {
			lc = &LoopContract{}
			ct.Loops[n] = lc
		}
		body := strings.TrimSpace(strings.TrimPrefix(strings.TrimSpace(strings.TrimPrefix(rest, f[0])), f[1]))
		switch f[1] {
		case "invariant":
			lab, txt := labelOf(body)
			x, err := parseExpr(txt)
			if err != nil {
				return fmt.Errorf("invariant %q: %v", txt, err)
			}
			lc.Invariants = append(lc.Invariants, Clause{Label: lab, Text: txt, X: x, Line: where})
		case "decreases":
			x, err := parseExpr(body)
			if err != nil {
				return fmt.Errorf("decreases %q: %v", body, err)
			}
			lc.Decreases = &Clause{Text: body, X: x, Line: where}
		case "step":
			lab, txt := labelOf(body)
			x, err := parseExpr(txt)
			if err != nil {
				return fmt.Errorf("step %q: %v", txt, err)
			}
			lc.Steps = append(lc.Steps, Clause{Label: lab, Text: txt, X: x, Line: where})
		case "ghost":
			lc.HasGhost = true
			lc.GhostKinds = append(lc.GhostKinds, strings.Fields(body)...)
		case "unroll":
			k, err := strconv.Atoi(body)
			if err != nil {
				return err
			}
			lc.Unroll = k
		case "assigns":
			lc.HasAssigns = true
			if body != "nothing" {
				for _, part := range splitTop(body, ',') {
					x, err := parseExpr(part)
					if err != nil {
						return fmt.Errorf("loop assigns %q: %v", part, err)
					}
					lc.Assigns = append(lc.Assigns, x)
				}
			}
		default:
			return fmt.Errorf("unknown loop clause %s", f[1])
		}
	}
	return nil
}

func splitLet(s string) (string, string) {
	for i := 0; i < len(s); i++ {
		if s[i] == '=' && (i+1 >= len(s) || s[i+1] != '=') {
			return strings.TrimSpace(s[:i]), strings.TrimSpace(s[i+1:])
		}
	}
	return s, ""
}

func splitTop(s string, sep byte) []string {
	var out []string
	depth := 0
	last := 0
	for i := 0; i < len(s); i++ {
		switch s[i] {
		case '(', '[':
			depth++
		case ')', ']':
			depth--
		default:
			if s[i] == sep && depth == 0 {
				out = append(out, strings.TrimSpace(s[last:i]))
				last = i + 1
			}
		}
	}
	out = append(out, strings.TrimSpace(s[last:]))
	return out
}

func parseSpec(rest, pkg string) (*SpecFun, error) {
	// name(a T, b U) R = expr
	name, body := splitLet(rest)
	k := strings.Index(name, "(")
	if k < 0 {
		return nil, fmt.Errorf("bad spec head %q", name)
	}
	fd, err := parseSig(name)
	if err != nil {
		return nil, fmt.Errorf("bad spec signature %q: %v", name, err)
	}
	sf := &SpecFun{Name: fd.Name.Name, Pkg: pkg}
	for _, f := range fd.Type.Params.List {
		for _, n := range f.Names {
			sf.Params = append(sf.Params, n.Name)
			sf.PTypes = append(sf.PTypes, exprString(f.Type))
		}
	}
	if fd.Type.Results != nil && len(fd.Type.Results.List) == 1 {
		sf.RType = exprString(fd.Type.Results.List[0].Type)
	}
	x, err := parseExpr(body)
	if err != nil {
		return nil, fmt.Errorf("spec %s body: %v", sf.Name, err)
	}
	sf.Body = x
	return sf, nil
}

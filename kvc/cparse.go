package main

// Parser for contract expressions: Go expression syntax plus ==>, <==>, c ? a : b,
// forall/exists k in lo..hi :: body, old(e), typeis(x, T).

import (
	"fmt"
	"math/big"
	"strconv"
	"strings"
)

type Expr interface{}

type (
	EIdent struct{ Name string }
	ELit   struct{ V *big.Int }
	EBool  struct{ V bool }
	EFloat struct{ V float64 }
	EStr   struct{ V string }
	EUnary struct {
		Op string
		X  Expr
	}
	EBinary struct {
		Op   string
		X, Y Expr
	}
	ECall struct {
		Fun  Expr
		Args []Expr
	}
	EIndex struct{ X, I Expr }
	ESlice struct{ X, Lo, Hi Expr }
	ESel   struct {
		X   Expr
		Sel string
	}
	EAssert struct {
		X Expr
		T string
	}
	EType  struct{ T string } // type expression used as an argument (typeis)
	EQuant struct {
		Exists bool
		Var    string
		Lo, Hi Expr
		Body   Expr
	}
	ECond struct{ C, A, B Expr }
)

type tok struct {
	k string // "id", "num", "str", "op", "eof"
	s string
}

func lex(s string) ([]tok, error) {
	var out []tok
	i := 0
	ops := []string{"<==>", "==>", "...", "<<", ">>", "&&", "||", "&^", "==", "!=", "<=", ">=", "::", ".."}
	for i < len(s) {
		ch := s[i]
		switch {
		case ch == ' ' || ch == '\t':
			i++
		case ch == '_' || ch >= 'a' && ch <= 'z' || ch >= 'A' && ch <= 'Z':
			j := i
			for j < len(s) && (s[j] == '_' || s[j] == '$' || s[j] >= 'a' && s[j] <= 'z' || s[j] >= 'A' && s[j] <= 'Z' || s[j] >= '0' && s[j] <= '9') {
				j++
			}
			out = append(out, tok{"id", s[i:j]})
			i = j
		case ch >= '0' && ch <= '9':
			j := i
			for j < len(s) && (s[j] >= '0' && s[j] <= '9' || s[j] >= 'a' && s[j] <= 'f' || s[j] >= 'A' && s[j] <= 'F' || s[j] == 'x' || s[j] == 'X' || s[j] == '_') {
				// stop before ".." range operator (digits never contain '.')
				j++
			}
			// fraction: digits '.' digit (not the range operator "..")
			if j+1 < len(s) && s[j] == '.' && s[j+1] >= '0' && s[j+1] <= '9' && !strings.ContainsAny(s[i:j], "xX") {
				j++
				for j < len(s) && s[j] >= '0' && s[j] <= '9' {
					j++
				}
				if j < len(s) && (s[j] == 'e' || s[j] == 'E') {
					k := j + 1
					if k < len(s) && (s[k] == '+' || s[k] == '-') {
						k++
					}
					if k < len(s) && s[k] >= '0' && s[k] <= '9' {
						for k < len(s) && s[k] >= '0' && s[k] <= '9' {
							k++
						}
						j = k
					}
				}
				out = append(out, tok{"float", s[i:j]})
				i = j
				continue
			}
			out = append(out, tok{"num", s[i:j]})
			i = j
		case ch == '\'':
			if i+2 < len(s) && s[i+2] == '\'' {
				out = append(out, tok{"num", fmt.Sprintf("%d", s[i+1])})
				i += 3
			} else {
				return nil, fmt.Errorf("bad char literal at %d", i)
			}
		case ch == '"':
			j := i + 1
			for j < len(s) && s[j] != '"' {
				j++
			}
			if j >= len(s) {
				return nil, fmt.Errorf("unterminated string")
			}
			out = append(out, tok{"str", s[i+1 : j]})
			i = j + 1
		default:
			matched := false
			for _, o := range ops {
				if strings.HasPrefix(s[i:], o) {
					out = append(out, tok{"op", o})
					i += len(o)
					matched = true
					break
				}
			}
			if !matched {
				if strings.ContainsRune("+-*/%&|^!<>()[].,:?=", rune(ch)) {
					out = append(out, tok{"op", string(ch)})
					i++
				} else {
					return nil, fmt.Errorf("unexpected character %q", ch)
				}
			}
		}
	}
	out = append(out, tok{"eof", ""})
	return out, nil
}

type cparser struct {
	t []tok
	p int
}

func parseExpr(s string) (Expr, error) {
	ts, err := lex(s)
	if err != nil {
		return nil, err
	}
	p := &cparser{t: ts}
	var x Expr
	err = func() (err error) {
		defer func() {
			if r := recover(); r != nil {
				if pe, ok := r.(parseErr); ok {
					err = fmt.Errorf("%s", string(pe))
					return
				}
				panic(r)
			}
		}()
		x = p.expr(0)
		if p.peek().k != "eof" {
			p.errf("unexpected %q", p.peek().s)
		}
		return nil
	}()
	return x, err
}

type parseErr string

func (p *cparser) errf(f string, a ...interface{}) { panic(parseErr(fmt.Sprintf(f, a...))) }
func (p *cparser) peek() tok                       { return p.t[p.p] }
func (p *cparser) next() tok                       { t := p.t[p.p]; p.p++; return t }
func (p *cparser) isOp(s string) bool              { return p.peek().k == "op" && p.peek().s == s }
func (p *cparser) expect(s string) {
	if !p.isOp(s) {
		p.errf("expected %q, found %q", s, p.peek().s)
	}
	p.p++
}

var binPrec = map[string]int{
	"<==>": 1, "==>": 2, "||": 4, "&&": 5,
	"==": 6, "!=": 6, "<": 6, "<=": 6, ">": 6, ">=": 6,
	"+": 7, "-": 7, "|": 7, "^": 7,
	"*": 8, "/": 8, "%": 8, "<<": 8, ">>": 8, "&": 8, "&^": 8,
}

func (p *cparser) expr(min int) Expr {
	x := p.unary()
	for {
		t := p.peek()
		if t.k != "op" {
			return x
		}
		if t.s == "?" && min <= 3 {
			p.next()
			a := p.expr(4)
			p.expect(":")
			b := p.expr(3)
			x = ECond{x, a, b}
			continue
		}
		pr, ok := binPrec[t.s]
		if !ok || pr < min {
			return x
		}
		p.next()
		var y Expr
		if t.s == "==>" {
			y = p.expr(pr) // right associative
		} else {
			y = p.expr(pr + 1)
		}
		x = EBinary{t.s, x, y}
	}
}

func (p *cparser) unary() Expr {
	t := p.peek()
	if t.k == "op" {
		switch t.s {
		case "!", "-", "^", "*", "&":
			p.next()
			return EUnary{t.s, p.unary()}
		}
	}
	return p.postfix(p.primary())
}

func (p *cparser) typeExpr() string {
	s := ""
	for p.isOp("*") {
		p.next()
		s += "*"
	}
	if p.isOp("[") {
		p.next()
		p.expect("]")
		s += "[]"
	}
	t := p.next()
	if t.k != "id" {
		p.errf("type name expected, found %q", t.s)
	}
	s += t.s
	if p.isOp(".") {
		p.next()
		u := p.next()
		s += "." + u.s
	}
	return s
}

func (p *cparser) primary() Expr {
	t := p.next()
	switch t.k {
	case "num":
		v := new(big.Int)
		if _, ok := v.SetString(strings.ReplaceAll(t.s, "_", ""), 0); !ok {
			p.errf("bad number %q", t.s)
		}
		return ELit{v}
	case "float":
		f, err := strconv.ParseFloat(t.s, 64)
		if err != nil {
			p.errf("bad float %q", t.s)
		}
		return EFloat{f}
	case "str":
		return EStr{t.s}
	case "id":
		switch t.s {
		case "true":
			return EBool{true}
		case "false":
			return EBool{false}
		case "forall", "exists":
			v := p.next()
			if v.k != "id" {
				p.errf("bound variable expected")
			}
			in := p.next()
			if in.s != "in" {
				p.errf("'in' expected")
			}
			lo := p.expr(4)
			p.expect("..")
			hi := p.expr(4)
			p.expect("::")
			body := p.expr(0)
			return EQuant{t.s == "exists", v.s, lo, hi, body}
		case "typeis":
			p.expect("(")
			x := p.expr(0)
			p.expect(",")
			ty := p.typeExpr()
			p.expect(")")
			return ECall{EIdent{"typeis"}, []Expr{x, EType{ty}}}
		}
		return EIdent{t.s}
	case "op":
		if t.s == "(" {
			// parenthesised expression or pointer-type conversion (*T)(x)
			if p.isOp("*") {
				save := p.p
				ty := func() (s string) {
					defer func() {
						if r := recover(); r != nil {
							s = ""
						}
					}()
					return p.typeExpr()
				}()
				if ty != "" && p.isOp(")") {
					p.next()
					if p.isOp("(") {
						p.next()
						x := p.expr(0)
						p.expect(")")
						return ECall{EType{ty}, []Expr{x}}
					}
				}
				p.p = save
			}
			x := p.expr(0)
			p.expect(")")
			return x
		}
	}
	p.errf("unexpected %q", t.s)
	return nil
}

func (p *cparser) postfix(x Expr) Expr {
	for {
		switch {
		case p.isOp("."):
			p.next()
			if p.isOp("(") {
				p.next()
				ty := p.typeExpr()
				p.expect(")")
				x = EAssert{x, ty}
				continue
			}
			t := p.next()
			if t.k != "id" {
				p.errf("selector expected")
			}
			x = ESel{x, t.s}
		case p.isOp("["):
			p.next()
			var lo, hi Expr
			if !p.isOp(":") {
				lo = p.expr(0)
			}
			if p.isOp(":") {
				p.next()
				if !p.isOp("]") {
					hi = p.expr(0)
				}
				p.expect("]")
				x = ESlice{x, lo, hi}
			} else {
				p.expect("]")
				x = EIndex{x, lo}
			}
		case p.isOp("("):
			p.next()
			var args []Expr
			for !p.isOp(")") {
				args = append(args, p.expr(0))
				if p.isOp(",") {
					p.next()
				}
			}
			p.expect(")")
			x = ECall{x, args}
		default:
			return x
		}
	}
}

func renameExpr(x Expr, ren map[string]string) Expr {
	switch t := x.(type) {
	case EIdent:
		if n, ok := ren[t.Name]; ok {
			return EIdent{n}
		}
		return t
	case EUnary:
		return EUnary{t.Op, renameExpr(t.X, ren)}
	case EBinary:
		return EBinary{t.Op, renameExpr(t.X, ren), renameExpr(t.Y, ren)}
	case ECall:
		var as []Expr
		for _, a := range t.Args {
			as = append(as, renameExpr(a, ren))
		}
		return ECall{renameExpr(t.Fun, ren), as}
	case EIndex:
		return EIndex{renameExpr(t.X, ren), renameExpr(t.I, ren)}
	case ESlice:
		var lo, hi Expr
		if t.Lo != nil {
			lo = renameExpr(t.Lo, ren)
		}
		if t.Hi != nil {
			hi = renameExpr(t.Hi, ren)
		}
		return ESlice{renameExpr(t.X, ren), lo, hi}
	case ESel:
		return ESel{renameExpr(t.X, ren), t.Sel}
	case EAssert:
		return EAssert{renameExpr(t.X, ren), t.T}
	case EQuant:
		r2 := map[string]string{}
		for k, v := range ren {
			if k != t.Var {
				r2[k] = v
			}
		}
		return EQuant{t.Exists, t.Var, renameExpr(t.Lo, r2), renameExpr(t.Hi, r2), renameExpr(t.Body, r2)}
	case ECond:
		return ECond{renameExpr(t.C, ren), renameExpr(t.A, ren), renameExpr(t.B, ren)}
	}
	return x
}

package main

// Environment operations (channels, select, goroutines, sync, time, net): DESIGN §2.4.5.
// Filled in by the protocol phase; until then they put a function outside reach.

import (
	"go/token"
	"go/types"

	"golang.org/x/tools/go/ssa"
)

func (e *Exec) chanRecv(fr *Frame, st State, in *ssa.UnOp) []Outcome {
	e.fail("channel receive not supported yet")
	return nil
}
func (e *Exec) chanSend(fr *Frame, st State, in *ssa.Send) []Outcome {
	e.fail("channel send not supported yet")
	return nil
}
func (e *Exec) selectOp(fr *Frame, st State, in *ssa.Select) []Outcome {
	e.fail("select not supported yet")
	return nil
}
func (e *Exec) makeChan(fr *Frame, st *State, in *ssa.MakeChan) Val {
	e.fail("make(chan) not supported yet")
	return nil
}
func (e *Exec) chanClose(fr *Frame, st State, cc *ssa.CallCommon, args []Val, pos token.Pos) []Outcome {
	e.fail("close not supported yet")
	return nil
}
func (e *Exec) makeMap(fr *Frame, st *State, in *ssa.MakeMap) Val {
	e.fail("make(map) not supported yet")
	return nil
}
func (e *Exec) mapUpdate(fr *Frame, st *State, in *ssa.MapUpdate) {
	e.fail("map update not supported yet")
}
func (e *Exec) mapLookup(fr *Frame, st State, in *ssa.Lookup) []Outcome {
	e.fail("map lookup not supported yet")
	return nil
}
func (e *Exec) rangeOp(fr *Frame, st *State, in *ssa.Range) Val {
	e.fail("range not supported yet")
	return nil
}
func (e *Exec) nextOp(fr *Frame, st State, in *ssa.Next) []Outcome {
	e.fail("next not supported yet")
	return nil
}
type civil struct{ y, m, d *Term }

func (e *Exec) externalEnv(fr *Frame, st State, fn *ssa.Function, args []Val, pos token.Pos) ([]Outcome, bool) {
	c := e.c
	switch fn.String() {
	case "time.Date":
		// assumed contract (calendar normalisation): a valid civil date is returned unchanged,
		// an invalid one is normalised to a different (year, month, day)
		for _, a := range args[3:7] {
			if !a[0].IsConst() || a[0].C != 0 {
				e.fail("time.Date with a non-zero time of day has no assumed contract")
			}
		}
		y, m, d := args[0][0], args[1][0], args[2][0]
		k := func(v uint64) *Term { return c.Const(64, v) }
		leap := c.And(c.Eq(c.Srem(y, k(4)), k(0)), c.Or(c.Ne(c.Srem(y, k(100)), k(0)), c.Eq(c.Srem(y, k(400)), k(0))))
		dim := c.Ite(c.Eq(m, k(2)), c.Ite(leap, k(29), k(28)),
			c.Ite(c.Or(c.Eq(m, k(4)), c.Eq(m, k(6)), c.Eq(m, k(9)), c.Eq(m, k(11))), k(30), k(31)))
		valid := c.And(c.Sle(k(1), m), c.Sle(m, k(12)), c.Sle(k(1), d), c.Sle(d, dim), c.Sle(k(1), y), c.Sle(y, k(9999)))
		Y, M, D := c.Fresh("date.y", BV(64)), c.Fresh("date.m", BV(64)), c.Fresh("date.d", BV(64))
		same := c.And(c.Eq(Y, y), c.Eq(M, m), c.Eq(D, d))
		st = st.assume(c.Eq(valid, same))
		st = st.assume(c.And(c.Sle(k(1), M), c.Sle(M, k(12)), c.Sle(k(1), D), c.Sle(D, k(31))))
		t := e.freshVal(fn.Signature.Results().At(0).Type(), "time")
		e.times[t[0]] = civil{Y, M, D}
		e.assumed["assumed contract: time.Date normalises exactly the invalid civil dates (conformance: exhaustive test over day/month/year)"] = true
		return []Outcome{{st: st, ret: t}}, true
	case "(time.Time).Year", "(time.Time).Month", "(time.Time).Day":
		cv, ok := e.times[args[0][0]]
		if !ok {
			e.fail("time.Time value of unknown origin")
		}
		r := map[string]*Term{"Year": cv.y, "Month": cv.m, "Day": cv.d}[fn.Name()]
		return []Outcome{{st: st, ret: Val{r}}}, true
	}
	return nil, false
}

func (e *Exec) externalInvokeEnv(fr *Frame, st State, cc *ssa.CallCommon, recv Val, args []Val, pos token.Pos) ([]Outcome, bool) {
	switch cc.Method.Name() {
	case "Error", "String":
		if cc.Method.Type().(*types.Signature).Params().Len() == 0 {
			s, v := e.freshString(st, "msg")
			e.assumed["error.Error()/Stringer.String() of foreign values return some string"] = true
			return []Outcome{{st: s, ret: v}}, true
		}
	}
	return nil, false
}
func (e *Exec) goEnv(fr *Frame, st State, g *ssa.Go, fnv Val, args []Val) []Outcome {
	e.fail("go statement not supported yet")
	return nil
}
// []rune(s): assumed contract — a fresh slice of at most len(s) runes; for ASCII-only
// strings exactly one rune per byte (stated as a quantified fact).
func (e *Exec) stringToRunes(fr *Frame, st *State, x Val) Val {
	c := e.c
	n := c.Fresh("nrunes", BV(64))
	s2 := st.assume(c.Ule(n, x[1]))
	s2, a := e.alloc(s2, n, "runes")
	arr := c.Fresh("runes.data", Sort{KArr, 32})
	s2.h[2] = s2.h[2].push(HeapLayer{kind: lHavoc, addr: a, n: n, arr: arr})
	k := c.Bound("k", BV(64))
	ascii := c.Forall(k, c.Imp(c.Ult(k, x[1]), c.Ult(e.read(st.h[0], c.Add(x[0], k)), c.Const(8, 0x80))))
	k2 := c.Bound("k", BV(64))
	same := c.Forall(k2, c.Imp(c.Ult(k2, x[1]), c.Eq(c.Select(arr, c.Add(a, k2)), c.Zext(e.read(st.h[0], c.Add(x[0], k2)), 32))))
	s2 = s2.assume(c.Imp(ascii, c.And(c.Eq(n, x[1]), same)))
	k3 := c.Bound("k", BV(64))
	s2 = s2.assume(c.Forall(k3, c.Imp(c.Ult(k3, n), c.Ule(c.Select(arr, c.Add(a, k3)), c.Const(32, 0x10FFFF)))))
	*st = s2
	e.assumed["assumed contract: []rune(string) (UTF-8 decoding; exact for ASCII)"] = true
	return Val{a, n, n}
}

// string(runes): assumed contract — a fresh string of n..4n bytes; for ASCII-only runes
// exactly one byte per rune.
func (e *Exec) runesToString(fr *Frame, st *State, x Val) Val {
	c := e.c
	n := c.Fresh("slen", BV(64))
	s2 := st.assume(c.And(c.Ule(x[1], n), c.Ule(n, c.Mul(x[1], c.Const(64, 4)))))
	s2, a := e.alloc(s2, n, "runestr")
	arr := c.Fresh("runestr.data", Sort{KArr, 8})
	s2.h[0] = s2.h[0].push(HeapLayer{kind: lHavoc, addr: a, n: n, arr: arr})
	k := c.Bound("k", BV(64))
	ascii := c.Forall(k, c.Imp(c.Ult(k, x[1]), c.Ult(e.read(st.h[2], c.Add(x[0], k)), c.Const(32, 0x80))))
	k2 := c.Bound("k", BV(64))
	same := c.Forall(k2, c.Imp(c.Ult(k2, x[1]), c.Eq(c.Select(arr, c.Add(a, k2)), c.Extract(7, 0, e.read(st.h[2], c.Add(x[0], k2))))))
	s2 = s2.assume(c.Imp(ascii, c.And(c.Eq(n, x[1]), same)))
	*st = s2
	e.assumed["assumed contract: string([]rune) (UTF-8 encoding; exact for ASCII)"] = true
	return Val{a, n}
}

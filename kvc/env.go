package main

// Environment operations (channels, select, goroutines, sync, time, net): DESIGN §2.4.5.
// Filled in by the protocol phase; until then they put a function outside reach.

import (
	"fmt"
	"go/token"
	"go/types"
	"strconv"
	"strings"

	"golang.org/x/tools/go/ssa"
)

func (e *Exec) makeMap(fr *Frame, st *State, in *ssa.MakeMap) Val {
	e.fail("make(map) not supported yet")
	return nil
}
func (e *Exec) mapUpdate(fr *Frame, st *State, in *ssa.MapUpdate) {
	e.fail("map update not supported yet")
}
func (e *Exec) mapLookup(fr *Frame, st State, in *ssa.Lookup) []Outcome {
	return e.mapLookupConst(fr, st, in)
}
func (e *Exec) rangeOp(fr *Frame, st *State, in *ssa.Range) Val {
	return e.rangeConst(fr, st, in)
}
func (e *Exec) nextOp(fr *Frame, st State, in *ssa.Next) []Outcome {
	return e.nextConst(fr, st, in)
}

type civil struct{ y, m, d *Term }

func (e *Exec) externalEnv(fr *Frame, st State, fn *ssa.Function, args []Val, pos token.Pos) ([]Outcome, bool) {
	c := e.c
	switch shortFn(fn.String()) {
	case "time.Date":
		// assumed contract (calendar normalisation): a valid civil date is returned unchanged,
		// an invalid one is normalised to a different (year, month, day)
		for _, a := range args[3:7] {
			if !a[0].IsConst() || a[0].C != 0 {
				e.fail("time.Date with a non-zero time of day has no assumed contract")
			}
		}
		y, m, d := args[0][0], args[1][0], args[2][0]
		k := func(v uint64) *Term { return c.Const(64, v) }
		leap := c.And(c.Eq(c.Srem(y, k(4)), k(0)), c.Or(c.Ne(c.Srem(y, k(100)), k(0)), c.Eq(c.Srem(y, k(400)), k(0))))
		dim := c.Ite(c.Eq(m, k(2)), c.Ite(leap, k(29), k(28)),
			c.Ite(c.Or(c.Eq(m, k(4)), c.Eq(m, k(6)), c.Eq(m, k(9)), c.Eq(m, k(11))), k(30), k(31)))
		valid := c.And(c.Sle(k(1), m), c.Sle(m, k(12)), c.Sle(k(1), d), c.Sle(d, dim), c.Sle(k(1), y), c.Sle(y, k(9999)))
		Y, M, D := c.Fresh("date.y", BV(64)), c.Fresh("date.m", BV(64)), c.Fresh("date.d", BV(64))
		same := c.And(c.Eq(Y, y), c.Eq(M, m), c.Eq(D, d))
		st = st.assume(c.Eq(valid, same))
		st = st.assume(c.And(c.Sle(k(1), M), c.Sle(M, k(12)), c.Sle(k(1), D), c.Sle(D, k(31))))
		t := e.freshVal(fn.Signature.Results().At(0).Type(), "time")
		e.times[t[0]] = civil{Y, M, D}
		e.assumed["assumed contract: time.Date normalises exactly the invalid civil dates (conformance: exhaustive test over day/month/year)"] = true
		return []Outcome{{st: st, ret: t}}, true
	case "container/list.New":
		s2, obj := e.alloc(st, c.Const(64, 8), "list")
		s2 = s2.setGhost(gkey("llen", obj), c.Const(64, 0))
		e.assumed["assumed contract: container/list (abstract length view only)"] = true
		return []Outcome{{st: s2, ret: Val{obj}}}, true
	case "(*container/list.List).Len":
		return []Outcome{{st: st, ret: Val{e.ghost(st, gkey("llen", args[0][0]), BV(64))}}}, true
	case "(*container/list.List).PushBack":
		l := args[0][0]
		st = st.setGhost(gkey("llen", l), c.Add(e.ghost(st, gkey("llen", l), BV(64)), c.Const(64, 1)))
		st = e.ghostInc(st, gkey("lpush", l))
		el := c.Fresh("elem", BV(64))
		st = st.assume(c.Ne(el, c.Const(64, 0)))
		return []Outcome{{st: st, ret: Val{el}}}, true
	case "(*container/list.List).Front", "(*container/list.List).Back":
		l := args[0][0]
		n := e.ghost(st, gkey("llen", l), BV(64))
		el := c.Fresh("elem", BV(64))
		st = st.assume(c.Eq(c.Eq(el, c.Const(64, 0)), c.Eq(n, c.Const(64, 0))))
		st = st.setGhost(gkey("lend", el), c.BoolC(fn.Name() == "Back"))
		return []Outcome{{st: st, ret: Val{el}}}, true
	case "(*container/list.List).Remove":
		l := args[0][0]
		n := e.ghost(st, gkey("llen", l), BV(64))
		st = e.oblige(st, fr.fn, "nopanic.nil", "list-remove-nil", pos, c.Ne(args[1][0], c.Const(64, 0)))
		st = st.setGhost(gkey("llen", l), c.Sub(n, c.Const(64, 1)))
		if fn.Name() == "Remove" {
			if b := st.getGhost(gkey("lend", args[1][0])); b != nil && b.IsTrue() {
				st = e.ghostInc(st, gkey("lpopback", l))
			} else {
				st = e.ghostInc(st, gkey("lpopfront", l))
			}
		}
		v := e.freshVal(fn.Signature.Results().At(0).Type(), "listval")
		// assumed: the list holds only what the package pushed — non-nil cemi.Message values
		if it := e.P.lookupIface("cemi.Message"); it != nil {
			var alts []*Term
			for _, I := range e.P.implementers(it) {
				alts = append(alts, c.Eq(v[0], c.Const(64, e.P.tag(I))))
			}
			st = st.assume(c.Or(alts...))
			st = st.assume(c.Ne(v[1], c.Const(64, 0)))
			e.assumed["assumed contract: container/list returns only values that were pushed (non-nil cemi.Message)"] = true
		}
		return []Outcome{{st: st, ret: v}}, true
	case "knxnet.DialTunnelUDP", "knxnet.DialTunnelTCP", "knxnet.ListenRouterOnInterface", "knxnet.ListenRouter":
		// environment: yields a usable socket or an error
		res := fn.Signature.Results()
		okS, obj := e.alloc(st, c.Const(64, uint64(e.P.lay.nslots(res.At(0).Type().(*types.Pointer).Elem()))), "socket")
		okS = e.ghostInc(okS, "ndial")
		okS = okS.setGhost(gkey("nsend", obj), c.Const(64, 0))
		okS = okS.setGhost(gkey("nclosesock", obj), c.Const(64, 0))
		s3, ev := e.freshError(e.ghostInc(st, "ndialfail"), "dial")
		s3 = e.ghostInc(s3, "ndial")
		return []Outcome{
			{st: okS.branch(c.Fresh("dial.ok", Bool)), ret: Val{obj, c.Const(64, 0), c.Const(64, 0)}},
			{st: s3, ret: Val{c.Const(64, 0), ev[0], ev[1]}},
		}, true
	case "(*net.UDPConn).WriteToUDP", "(*net.UDPConn).Write", "(*net.TCPConn).Write":
		b := args[1]
		st = e.netWrite(st, b)
		n := c.Fresh("nwritten", BV(64))
		err := e.freshVal(fn.Signature.Results().At(1).Type(), "writeerr")
		st = st.assume(c.Imp(c.Eq(err[0], c.Const(64, 0)), c.And(c.Eq(err[1], c.Const(64, 0)), c.Eq(n, b[1]))))
		return []Outcome{{st: st, ret: Val{n, err[0], err[1]}}}, true
	case "(*net.UDPConn).ReadFromUDP":
		// assumed: 0 <= n <= len(b); b[0:n] holds the datagram; a non-nil sender on success
		b := args[1]
		n := c.Fresh("nread", BV(64))
		st = st.assume(c.Ule(n, b[1]))
		arr := c.Fresh("datagram", Sort{KArr, 8})
		st.h[0] = st.h[0].push(HeapLayer{kind: lHavoc, addr: b[0], n: n, arr: arr})
		AT := fn.Signature.Results().At(1).Type()
		addr := e.freshVal(AT, "sender")
		st = e.assumeValid(st, AT, addr, true)
		err := e.freshVal(fn.Signature.Results().At(2).Type(), "readerr")
		st = st.assume(c.Imp(c.Eq(err[0], c.Const(64, 0)), c.And(c.Eq(err[1], c.Const(64, 0)), c.Ne(addr[0], c.Const(64, 0)))))
		st = e.ghostInc(st, "ndatagram")
		{
			// nreaderr counts the reads that failed (the only legitimate reason for a UDP worker to end)
			k := e.ghost(st, "nreaderr", BV(64))
			st = st.setGhost("nreaderr", c.Ite(c.Eq(err[0], c.Const(64, 0)), k, c.Add(k, c.Const(64, 1))))
		}
		e.assumed["assumed contract: (*net.UDPConn).ReadFromUDP returns 0 <= n <= len(b) and a non-nil sender on success"] = true
		return []Outcome{{st: st, ret: Val{n, addr[0], err[0], err[1]}}}, true
	case "net.SplitHostPort":
		// assumed: (host, port, nil) with some strings, or ("", "", err)
		s1, h := e.freshString(st, "host")
		s1, p := e.freshString(s1, "port")
		okOut := Outcome{st: s1, ret: Val{h[0], h[1], p[0], p[1], c.Const(64, 0), c.Const(64, 0)}}
		s2, ev := e.freshError(st, "splithostport")
		z := c.Const(64, 0)
		return []Outcome{okOut, {st: s2, ret: Val{z, z, z, z, ev[0], ev[1]}}}, true
	case "net.ParseIP":
		// assumed: nil, or a fresh 16-byte (or 4-byte) slice
		n := c.Fresh("iplen", BV(64))
		s1 := st.assume(c.Or(c.Eq(n, c.Const(64, 16)), c.Eq(n, c.Const(64, 4))))
		s1, a := e.alloc(s1, n, "ip")
		arr := c.Fresh("ip.data", Sort{KArr, 8})
		s1.h[0] = s1.h[0].push(HeapLayer{kind: lHavoc, addr: a, n: n, arr: arr})
		z := c.Const(64, 0)
		return []Outcome{{st: s1, ret: Val{a, n, n}}, {st: st, ret: Val{z, z, z}}}, true
	case "(net.IP).To4":
		// assumed: nil, or a 4-byte slice (a fresh copy here; the real one may alias its
		// receiver, which no caller in this module writes through)
		s1, a := e.alloc(st, c.Const(64, 4), "ip4")
		arr := c.Fresh("ip4.data", Sort{KArr, 8})
		s1.h[0] = s1.h[0].push(HeapLayer{kind: lHavoc, addr: a, n: c.Const(64, 4), arr: arr})
		z := c.Const(64, 0)
		return []Outcome{{st: s1, ret: Val{a, c.Const(64, 4), c.Const(64, 4)}}, {st: st, ret: Val{z, z, z}}}, true
	case "strconv.ParseUint":
		// assumed: a value that fits bitSize (also on a range error), and possibly an error
		v := c.Fresh("parseuint", BV(64))
		bs := e.ext(args[2][0], types.Typ[types.Int], 64)
		fits := c.Or(c.Eq(bs, c.Const(64, 0)), c.Ule(c.Const(64, 64), bs), c.Ult(v, c.Shl(c.Const(64, 1), bs)))
		s1 := st.assume(fits)
		s2, ev := e.freshError(s1, "parseuint")
		return []Outcome{{st: s1, ret: Val{v, c.Const(64, 0), c.Const(64, 0)}}, {st: s2, ret: Val{v, ev[0], ev[1]}}}, true
	case "(net.IP).Equal", "(net.IP).IsMulticast":
		return []Outcome{{st: st, ret: Val{c.Fresh("ipcmp", Bool)}}}, true
	case "bufio.NewReader":
		s2, obj := e.alloc(st, c.Const(64, 16), "bufio")
		s2 = s2.setGhost("stream.pos", e.ghost(st, "stream.pos", BV(64)))
		return []Outcome{{st: s2, ret: Val{obj}}}, true
	case "(*bufio.Reader).Peek":
		// assumed: the next n bytes of the stream (not consumed) or an error
		n := args[1][0]
		s2, a := e.alloc(st, n, "peek")
		arr := c.Fresh("peeked", Sort{KArr, 8})
		s2.h[0] = s2.h[0].push(HeapLayer{kind: lHavoc, addr: a, n: n, arr: arr})
		s2 = s2.setGhost("peek.base", a)
		s3, ev := e.freshError(st, "peek")
		s3 = e.ghostInc(s3, "nreaderr")
		e.assumed["assumed contract: bufio.Reader.Peek / io.ReadFull behave as a byte stream (ghost position stream.pos)"] = true
		return []Outcome{
			{st: s2.branch(c.Fresh("peek.ok", Bool)), ret: Val{a, n, n, c.Const(64, 0), c.Const(64, 0)}},
			{st: s3, ret: Val{c.Const(64, 0), c.Const(64, 0), c.Const(64, 0), ev[0], ev[1]}},
		}, true
	case "io.ReadFull":
		// assumed: err == nil <=> exactly len(buf) bytes were consumed and stored
		b := args[1]
		arr := c.Fresh("streamdata", Sort{KArr, 8})
		okS := st
		okS.h[0] = okS.h[0].push(HeapLayer{kind: lHavoc, addr: b[0], n: b[1], arr: arr})
		okS = okS.setGhost("stream.pos", c.Add(e.ghost(st, "stream.pos", BV(64)), b[1]))
		n := c.Fresh("npartial", BV(64))
		badS := st.assume(c.Ult(n, b[1]))
		arr2 := c.Fresh("streamdata", Sort{KArr, 8})
		badS.h[0] = badS.h[0].push(HeapLayer{kind: lHavoc, addr: b[0], n: n, arr: arr2})
		badS = badS.setGhost("stream.pos", c.Add(e.ghost(st, "stream.pos", BV(64)), n))
		badS, ev := e.freshError(badS, "readfull")
		badS = e.ghostInc(badS, "nreaderr")
		return []Outcome{
			{st: okS.branch(c.Fresh("readfull.ok", Bool)), ret: Val{b[1], c.Const(64, 0), c.Const(64, 0)}},
			{st: badS, ret: Val{n, ev[0], ev[1]}},
		}, true
	case "(*sync.Mutex).Lock":
		mu := args[0][0]
		// acquiring a lock may block: an arbitrary amount of time passes
		{
			now := c.Fresh("now", BV(64))
			old := e.ghost(st, "clock", BV(64))
			st = st.assume(c.And(c.Sle(old, now), c.Slt(c.Sub(now, old), c.Const(64, 1<<50))))
			st = st.setGhost("clock", now)
		}
		st = e.oblige(st, fr.fn, "lock", "not-held", pos, c.Not(e.ghost(st, gkey("held", mu), Bool)))
		st = st.setGhost(gkey("held", mu), c.True)
		return []Outcome{{st: st}}, true
	case "(*sync.Mutex).Unlock":
		mu := args[0][0]
		st = e.oblige(st, fr.fn, "lock", "held", pos, e.ghost(st, gkey("held", mu), Bool))
		st = st.setGhost(gkey("held", mu), c.False)
		st = st.setGhost(gkey("unlockclock", mu), e.ghost(st, "clock", BV(64)))
		return []Outcome{{st: st}}, true
	case "(*sync.WaitGroup).Add", "(*sync.WaitGroup).Done", "(*sync.WaitGroup).Wait":
		st = e.ghostInc(st, "wg:"+fn.Name())
		return []Outcome{{st: st}}, true
	case "(*sync.Once).Do":
		once := args[0][0]
		done := e.ghost(st, gkey("once", once), Bool)
		var outs []Outcome
		if s1 := st.branch(done); !s1.pcFalse() {
			outs = append(outs, Outcome{st: s1})
		}
		if s2 := st.branch(c.Not(done)); !s2.pcFalse() {
			s2 = s2.setGhost(gkey("once", once), c.True)
			f := args[1][0]
			if cl, ok := e.closures[f]; ok {
				for _, o := range e.callStatic(fr, s2, cl.fn, nil, cl.binds, pos) {
					outs = append(outs, Outcome{st: o.st})
				}
			} else {
				e.fail("sync.Once.Do with an unknown function value")
			}
		}
		return outs, true
	case "time.NewTicker":
		d := args[0][0]
		st = e.oblige(st, fr.fn, "nopanic.ticker", "", pos, c.Slt(c.Const(64, 0), d))
		T := fn.Signature.Results().At(0).Type().(*types.Pointer).Elem()
		s2, obj := e.alloc(st, c.Const(64, uint64(e.P.lay.nslots(T))), "ticker")
		ch := e.newChan(&s2, "ticker.C")
		s2.h[3] = e.store(s2.h[3], obj, ch)
		s2 = s2.setGhost(gkey("period", ch), d)
		s2 = s2.setGhost("lastticker.d", d)
		s2 = e.ghostInc(s2, "nticker")
		return []Outcome{{st: s2, ret: Val{obj}}}, true
	case "(*time.Ticker).Stop":
		st = e.ghostInc(st, "ntickerstop")
		return []Outcome{{st: st}}, true
	case "time.After":
		d := args[0][0]
		ch := e.newChan(&st, "after")
		st = st.setGhost(gkey("period", ch), d)
		st = st.setGhost("lastafter.d", d)
		st = st.setGhost("lastafter.d#ch", ch)
		st = e.ghostInc(st, "nafter")
		return []Outcome{{st: st, ret: Val{ch}}}, true
	case "time.AfterFunc":
		d := args[0][0]
		st = e.ghostInc(st, "nafterfunc")
		st = st.setGhost("afterfunc.d", d)
		f := args[1][0]
		if cl, ok := e.closures[f]; ok && !hasLoopOrSelect(cl.fn) {
			// the callback runs later, after d has elapsed: advance the ghost clock first
			s2 := st.setGhost("clock", c.Add(e.ghost(st, "clock", BV(64)), d))
			var outs []Outcome
			for _, o := range e.callStatic(fr, s2, cl.fn, nil, cl.binds, pos) {
				r := e.freshVal(fn.Signature.Results().At(0).Type(), "timer")
				outs = append(outs, Outcome{st: o.st, ret: r})
			}
			return outs, true
		}
		return []Outcome{{st: st, ret: e.freshVal(fn.Signature.Results().At(0).Type(), "timer")}}, true
	case "time.Sleep":
		// assumed: advances the ghost clock by at least the argument; a non-positive argument
		// does not sleep at all
		d := c.Ite(c.Slt(args[0][0], c.Const(64, 0)), c.Const(64, 0), args[0][0])
		st = st.setGhost("clock", c.Add(e.ghost(st, "clock", BV(64)), d))
		st = st.setGhost("slept", c.Add(e.ghost(st, "slept", BV(64)), d))
		return []Outcome{{st: st}}, true
	case "time.Now", "time.Since":
		// assumed: a monotonic clock; time passes between any two observations (by an
		// arbitrary non-negative amount below 2^62 ns)
		now := c.Fresh("now", BV(64))
		old := e.ghost(st, "clock", BV(64))
		st = st.assume(c.And(c.Sle(old, now), c.Slt(c.Sub(now, old), c.Const(64, 1<<50))))
		st = st.setGhost("clock", now)
		e.assumed["assumed contract: time.Now/time.Since read a monotonic clock (ghost clock)"] = true
		if fn.Name() == "Now" {
			return []Outcome{{st: st, ret: Val{c.Const(64, 0), now, c.Const(64, 0)}}}, true
		}
		return []Outcome{{st: st, ret: Val{c.Sub(now, args[0][1])}}}, true
	case "math/rand.Float64":
		r := e.freshVal(fn.Signature.Results().At(0).Type(), "rand")
		zero := e.fpFromBits(c.Const(64, 0))
		one := e.fpFromBits(c.Const(64, 0x3ff0000000000000))
		st = st.assume(c.And(c.FPop("fp.leq", Bool, zero, r[0]), c.FPop("fp.lt", Bool, r[0], one)))
		return []Outcome{{st: st, ret: r}}, true
	case "(time.Time).Year", "(time.Time).Month", "(time.Time).Day":
		cv, ok := e.times[args[0][0]]
		if !ok {
			e.fail("time.Time value of unknown origin")
		}
		r := map[string]*Term{"Year": cv.y, "Month": cv.m, "Day": cv.d}[fn.Name()]
		return []Outcome{{st: st, ret: Val{r}}}, true
	}
	return nil, false
}

// socketInvoke models knxnet.Socket as part of the environment (ghost send log).
func (e *Exec) socketInvoke(fr *Frame, st State, cc *ssa.CallCommon, recv Val, args []Val, pos token.Pos) []Outcome {
	c := e.c
	sock := recv[1]
	switch cc.Method.Name() {
	case "Send":
		p := args[0]
		nkey := gkey("nsend", sock)
		n := e.ghost(st, nkey, BV(64))
		l0 := e.ghost(st, gkey("lastsend", sock)+"#0", BV(64))
		l1 := e.ghost(st, gkey("lastsend", sock)+"#1", BV(64))
		same := e.ghost(st, gkey("sendsame", sock), Bool)
		n0 := e.ghost(fr.rootEntry(e), nkey, BV(64))
		// all payloads sent since function entry are one and the same object
		st = st.setGhost(gkey("sendsame", sock), c.And(same, c.Or(c.Eq(n, n0), c.And(c.Eq(l0, p[0]), c.Eq(l1, p[1])))))
		st = st.setGhost(nkey, c.Add(n, c.Const(64, 1)))
		st = st.setGhost(gkey("lastsend", sock)+"#0", p[0])
		st = st.setGhost(gkey("lastsend", sock)+"#1", p[1])
		st = st.setGhost(gkey("sendclock", sock), e.ghost(st, "clock", BV(64)))
		{
			// sendbare: some frame left through this socket while no mutex known to this
			// execution was held (C13: every routing indication goes out under the send lock)
			held := []*Term{}
			seen := map[string]bool{}
			for g := st.ghost; g != nil; g = g.prev {
				if seen[g.name] {
					continue
				}
				seen[g.name] = true
				if ghostKind(g.name) == "held" {
					held = append(held, g.val)
				}
			}
			bare := e.ghost(st, gkey("sendbare", sock), Bool)
			st = st.setGhost(gkey("sendbare", sock), c.Or(bare, c.Not(c.Or(held...))))
		}
		st = e.ghostInc(st, "nsocksend")
		st = e.oblige(st, fr.fn, "chan", "send-nonnil", pos, c.Ne(p[0], c.Const(64, 0)))
		err := e.freshVal(cc.Signature().Results().At(0).Type(), "senderr")
		st = st.assume(c.Imp(c.Eq(err[0], c.Const(64, 0)), c.Eq(err[1], c.Const(64, 0))))
		return []Outcome{{st: st, ret: err}}
	case "Inbound":
		return []Outcome{{st: st, ret: Val{c.Apply("sock.inbound", BV(64), sock)}}}
	case "Close":
		st = e.ghostInc(st, gkey("nclosesock", sock))
		st = e.ghostInc(st, "nsockclose")
		err := e.freshVal(cc.Signature().Results().At(0).Type(), "closeerr")
		st = st.assume(c.Imp(c.Eq(err[0], c.Const(64, 0)), c.Eq(err[1], c.Const(64, 0))))
		return []Outcome{{st: st, ret: err}}
	case "LocalAddr":
		r := Val{c.Apply("sock.localaddr.tag", BV(64), sock), c.Apply("sock.localaddr.word", BV(64), sock)}
		st = st.assume(c.Ne(r[0], c.Const(64, 0)))
		e.assumed["a live socket has a non-nil local address"] = true
		return []Outcome{{st: st, ret: r}}
	}
	e.fail("knxnet.Socket method %s has no environment model", cc.Method.Name())
	return nil
}

func (e *Exec) externalInvokeEnv(fr *Frame, st State, cc *ssa.CallCommon, recv Val, args []Val, pos token.Pos) ([]Outcome, bool) {
	switch cc.Method.Name() {
	case "Write":
		// net.Conn.Write: one write of the whole slice (or an error)
		c := e.c
		b := args[0]
		st = e.netWrite(st, b)
		n := c.Fresh("nwritten", BV(64))
		err := e.freshVal(cc.Signature().Results().At(1).Type(), "writeerr")
		st = st.assume(c.Imp(c.Eq(err[0], c.Const(64, 0)), c.And(c.Eq(err[1], c.Const(64, 0)), c.Eq(n, b[1]))))
		return []Outcome{{st: st, ret: Val{n, err[0], err[1]}}}, true
	case "Close":
		if cc.Signature().Results().Len() == 1 {
			st = e.ghostInc(st, "nconnclose")
			err := e.freshVal(cc.Signature().Results().At(0).Type(), "closeerr")
			return []Outcome{{st: st, ret: err}}, true
		}
	case "LocalAddr":
		r := e.freshVal(cc.Signature().Results().At(0).Type(), "localaddr")
		return []Outcome{{st: st, ret: r}}, true
	case "Network":
		if cc.Method.Type().(*types.Signature).Params().Len() == 0 {
			c := e.c
			v := e.addrNetwork(recv)
			st = st.assume(c.And(c.Ule(v[1], c.Const(64, 1<<20)), c.Or(c.Eq(v[1], c.Const(64, 0)), c.And(c.Ule(c.Const(64, 1), v[0]), c.Ule(c.Add(v[0], v[1]), e.brk0)))))
			e.assumed["net.Addr.Network() is a function of the address value and returns a pre-existing string"] = true
			return []Outcome{{st: st, ret: v}}, true
		}
	case "Error", "String":
		if cc.Method.Type().(*types.Signature).Params().Len() == 0 {
			s, v := e.freshString(st, "msg")
			e.assumed["error.Error()/Stringer.String() of foreign values return some string"] = true
			return []Outcome{{st: s, ret: v}}, true
		}
	}
	return nil, false
}

// []rune(s): assumed contract — a fresh slice of at most len(s) runes; for ASCII-only
// strings exactly one rune per byte (stated as a quantified fact).
func (e *Exec) stringToRunes(fr *Frame, st *State, x Val) Val {
	c := e.c
	n := c.Fresh("nrunes", BV(64))
	s2 := st.assume(c.Ule(n, x[1]))
	s2, a := e.alloc(s2, n, "runes")
	arr := c.Fresh("runes.data", Sort{KArr, 32})
	s2.h[2] = s2.h[2].push(HeapLayer{kind: lHavoc, addr: a, n: n, arr: arr})
	k := c.Bound("k", BV(64))
	ascii := c.Forall(k, c.Imp(c.Ult(k, x[1]), c.Ult(e.read(st.h[0], c.Add(x[0], k)), c.Const(8, 0x80))))
	k2 := c.Bound("k", BV(64))
	same := c.Forall(k2, c.Imp(c.Ult(k2, x[1]), c.Eq(c.Select(arr, c.Add(a, k2)), c.Zext(e.read(st.h[0], c.Add(x[0], k2)), 32))))
	s2 = s2.assume(c.Imp(ascii, c.And(c.Eq(n, x[1]), same)))
	k3 := c.Bound("k", BV(64))
	s2 = s2.assume(c.Forall(k3, c.Imp(c.Ult(k3, n), c.Ule(c.Select(arr, c.Add(a, k3)), c.Const(32, 0x10FFFF)))))
	*st = s2
	e.assumed["assumed contract: []rune(string) (UTF-8 decoding; exact for ASCII)"] = true
	return Val{a, n, n}
}

// string(runes): assumed contract — a fresh string of n..4n bytes; for ASCII-only runes
// exactly one byte per rune.
func (e *Exec) runesToString(fr *Frame, st *State, x Val) Val {
	c := e.c
	n := c.Fresh("slen", BV(64))
	s2 := st.assume(c.And(c.Ule(x[1], n), c.Ule(n, c.Mul(x[1], c.Const(64, 4)))))
	s2, a := e.alloc(s2, n, "runestr")
	arr := c.Fresh("runestr.data", Sort{KArr, 8})
	s2.h[0] = s2.h[0].push(HeapLayer{kind: lHavoc, addr: a, n: n, arr: arr})
	k := c.Bound("k", BV(64))
	ascii := c.Forall(k, c.Imp(c.Ult(k, x[1]), c.Ult(e.read(st.h[2], c.Add(x[0], k)), c.Const(32, 0x80))))
	k2 := c.Bound("k", BV(64))
	same := c.Forall(k2, c.Imp(c.Ult(k2, x[1]), c.Eq(c.Select(arr, c.Add(a, k2)), c.Extract(7, 0, e.read(st.h[2], c.Add(x[0], k2))))))
	s2 = s2.assume(c.Imp(ascii, c.And(c.Eq(n, x[1]), same)))
	*st = s2
	e.assumed["assumed contract: string([]rune) (UTF-8 encoding; exact for ASCII)"] = true
	return Val{a, n}
}

// ---------- ghost state ----------

// ghost returns the current value of a ghost variable, creating its (symbolic) value for
// the current epoch on first use.
func (e *Exec) ghost(st State, name string, sort Sort) *Term {
	if g := st.getGhost(name); g != nil {
		return g
	}
	ep := st.gepoch
	k := ghostKind(name)
	key := name
	if i := strings.IndexByte(key, '#'); i >= 0 {
		key = key[:i]
	}
	for n := st.kepoch; n != nil; n = n.prev {
		if n.name == k || n.name == key {
			if int(n.val.C) > ep {
				ep = int(n.val.C)
			}
			break
		}
	}
	v := e.c.Var(fmt.Sprintf("g%d.%s", ep, name), sort)
	if (k == "clock" || k == "sendclock" || k == "unlockclock" || k == "slept") && !e.ghostBounded[v] {
		e.ghostBounded[v] = true
		e.axioms = append(e.axioms, e.c.Ult(v, e.c.Const(64, 1<<60)))
	}
	if sort.K == KBV && sort.W == 64 && counterKinds[k] && !e.ghostBounded[v] {
		// ghost counters are mathematical integers: far from wrapping
		e.ghostBounded[v] = true
		e.axioms = append(e.axioms, e.c.Ult(v, e.c.Const(64, 1<<40)))
	}
	return v
}

var counterKinds = map[string]bool{"nsend": true, "nsent": true, "nrecv": true, "nrecvc": true, "nclose": true, "nspawn": true,
	"nsocksend": true, "nsockclose": true, "ndial": true, "ndialfail": true, "nwrite": true, "ndatagram": true, "nconnclose": true, "stream.pos": true, "llen": true, "lpush": true, "lpopfront": true, "lpopback": true, "nticker": true, "nreaderr": true, "nafter": true, "nafterfunc": true, "ntickerstop": true, "wg": true, "nclosesock": true}

// ghostOfFresh: the ghost variable belongs to an object created during this execution.
func (e *Exec) ghostOfFresh(name string) bool {
	i := strings.IndexByte(name, '@')
	if i < 0 {
		return false
	}
	j := i + 1
	for j < len(name) && name[j] >= '0' && name[j] <= '9' {
		j++
	}
	id, err := strconv.Atoi(name[i+1 : j])
	return err == nil && e.freshGhost[uint32(id)]
}

// ghostKind: "nsend@123" -> "nsend", "lastsent@5#0" -> "lastsent", "nspawn:f" -> "nspawn".
func ghostKind(name string) string {
	for i := 0; i < len(name); i++ {
		if name[i] == '@' || name[i] == '#' || name[i] == ':' {
			return name[:i]
		}
	}
	return name
}

// ghostKeyOf evaluates an object-specific ghost item to its key.
func (e *Exec) ghostKeyOf(env *cenv, it ghostItem) string {
	v := env.eval(it.Arg)
	var t *Term
	switch it.Kind {
	case "nsend", "lastsend", "sendsame", "sendclock", "nclosesock", "sendbare":
		t = v.v[1] // interface value: the socket object
		if _, ok := v.T.Underlying().(*types.Interface); !ok {
			t = v.v[0]
		}
	case "held", "unlockclock":
		t = v.addr
	default:
		t = v.v[0]
	}
	if t == nil {
		env.errf("ghost item %s: no object", it.Kind)
	}
	return gkey(it.Kind, t)
}

// expandGhostNames adds the companion counters implied by a ghost kind or key:
// nsend -> nsocksend (global count), nrecv[@id] -> nrecvc[@id] (receives that found the channel closed).
func expandGhostNames(names []string) []string {
	out := append([]string{}, names...)
	for _, k := range names {
		if strings.HasPrefix(k, "nsend") {
			// a function that may send may also change "sent without a lock" unless it says otherwise
			out = append(out, "nsocksend", "sendbare"+k[len("nsend"):])
		}
		if strings.HasPrefix(k, "nrecv") && !strings.HasPrefix(k, "nrecvc") {
			out = append(out, "nrecvc"+k[len("nrecv"):])
		}
	}
	return out
}

// havocGhostKinds forgets the ghost variables of the given kinds only.
func (e *Exec) havocGhostKinds(st State, kinds []string) State {
	kinds = expandGhostNames(kinds)
	want := map[string]bool{}
	for _, k := range kinds {
		want[k] = true
	}
	hasSend := false
	for _, k := range kinds {
		if strings.HasPrefix(k, "nsend") {
			hasSend = true
		}
	}
	if hasSend && !want["nsocksend"] {
		want["nsocksend"] = true
		kinds = append(append([]string{}, kinds...), "nsocksend")
	}
	e.gepochs++
	for _, k := range kinds {
		st.kepoch = &ghostNode{name: k, val: e.c.Const(64, uint64(e.gepochs)), prev: st.kepoch}
	}
	// drop the set entries of those kinds or keys (rebuild the list, oldest first)
	var keep []*ghostNode
	seen := map[string]bool{}
	for g := st.ghost; g != nil; g = g.prev {
		if seen[g.name] {
			continue
		}
		seen[g.name] = true
		key := g.name
		if i := strings.IndexByte(key, '#'); i >= 0 {
			key = key[:i]
		}
		if !want[ghostKind(g.name)] && !want[key] {
			keep = append(keep, g)
		}
	}
	st.ghost = nil
	for i := len(keep) - 1; i >= 0; i-- {
		st.ghost = &ghostNode{name: keep[i].name, val: keep[i].val, prev: st.ghost}
	}
	return st
}

// havocGhost forgets all ghost state (loop cut, call through a contract with ghost effects).
func (e *Exec) havocGhost(st State) State {
	e.gepochs++
	st.gepoch = e.gepochs
	st.ghost = nil
	return st
}

func gkey(kind string, t *Term) string { return fmt.Sprintf("%s@%d", kind, t.id) }

func (e *Exec) ghostInc(st State, key string) State {
	c := e.c
	return st.setGhost(key, c.Add(e.ghost(st, key, BV(64)), c.Const(64, 1)))
}

// ---------- channels ----------

func (e *Exec) newChan(st *State, what string) *Term {
	c := e.c
	s2, a := e.alloc(*st, c.Const(64, 1), what)
	s2 = s2.setGhost(gkey("closed", a), c.False)
	s2 = s2.setGhost(gkey("nsent", a), c.Const(64, 0))
	s2 = s2.setGhost(gkey("nrecv", a), c.Const(64, 0))
	s2 = s2.setGhost(gkey("nrecvc", a), c.Const(64, 0))
	e.freshGhost[a.id] = true
	*st = s2
	return a
}

func (e *Exec) makeChan(fr *Frame, st *State, in *ssa.MakeChan) Val {
	return Val{e.newChan(st, "chan")}
}

func (e *Exec) recordSend(st State, ch *Term, ET types.Type, v Val) State {
	st = e.ghostInc(st, gkey("nsent", ch))
	for i, t := range v {
		st = st.setGhost(fmt.Sprintf("%s#%d", gkey("lastsent", ch), i), t)
	}
	return st
}

// recvValue yields the outcomes of a receive: a value the environment may deliver, or
// (closed) the zero value.
func (e *Exec) recvValue(st State, ch *Term, ET types.Type, pos token.Pos) (open State, v Val, closed State, z Val) {
	c := e.c
	v = e.freshVal(ET, "recv")
	open = e.assumeValid(st, ET, v, true)
	// values travelling on channels of pointers are non-nil (checked at every send)
	if pt, ok := ET.Underlying().(*types.Pointer); ok {
		open = open.assume(c.Ne(v[0], c.Const(64, 0)))
		n := uint64(e.P.lay.nslots(pt.Elem()))
		if n == 0 {
			n = 1
		}
		// a received *T cannot point into an object whose type contains no T
		open = e.typeDisjoint(open, v[0], c.Const(64, n), pt.Elem(), false)
	}
	open = e.ghostInc(open, gkey("nrecv", ch))
	for i, t := range v {
		open = open.setGhost(fmt.Sprintf("%s#%d", gkey("lastrecv", ch), i), t)
	}
	closed = e.ghostInc(st, gkey("nrecvc", ch))
	z = e.zeroVal(ET)
	return
}

func (e *Exec) chanRecv(fr *Frame, st State, in *ssa.UnOp) []Outcome {
	c := e.c
	ch := e.operand(fr, &st, in.X)[0]
	ET := in.X.Type().Underlying().(*types.Chan).Elem()
	open, v, closed, z := e.recvValue(st, ch, ET, in.Pos())
	if in.CommaOk {
		return []Outcome{
			{st: open.branch(c.Fresh("recv.open", Bool)), ret: append(append(Val{}, v...), c.True)},
			{st: closed, ret: append(append(Val{}, z...), c.False)},
		}
	}
	if len(v) == 0 {
		return []Outcome{{st: open, ret: v}}
	}
	return []Outcome{{st: open, ret: v}, {st: closed, ret: z}}
}

func (e *Exec) sendObligations(st State, fr *Frame, ch *Term, ET types.Type, v Val, pos token.Pos) State {
	c := e.c
	if e.recovering > 0 {
		// the goroutine recovers from the panic of sending on a closed channel and ends;
		// only the case where the send takes place is followed
		st = st.assume(c.Not(e.ghost(st, gkey("closed", ch), Bool)))
	} else {
		st = e.oblige(st, fr.fn, "nopanic.chan", "send-on-closed", pos, c.Not(e.ghost(st, gkey("closed", ch), Bool)))
	}
	if _, ok := ET.Underlying().(*types.Pointer); ok {
		st = e.oblige(st, fr.fn, "chan", "nonnil", pos, c.Ne(v[0], c.Const(64, 0)))
	}
	return st
}

func (e *Exec) chanSend(fr *Frame, st State, in *ssa.Send) []Outcome {
	ch := e.operand(fr, &st, in.Chan)[0]
	v := e.operand(fr, &st, in.X)
	ET := in.Chan.Type().Underlying().(*types.Chan).Elem()
	st = e.sendObligations(st, fr, ch, ET, v, in.Pos())
	st = e.recordSend(st, ch, ET, v)
	return []Outcome{{st: st}}
}

func (e *Exec) selectOp(fr *Frame, st State, in *ssa.Select) []Outcome {
	c := e.c
	// result tuple: (index int, recvOk bool, r_0 ... r_n-1) with one r per receive state
	var recvTypes []types.Type
	for _, s := range in.States {
		if s.Dir == types.RecvOnly {
			recvTypes = append(recvTypes, s.Chan.Type().Underlying().(*types.Chan).Elem())
		}
	}
	mk := func(idx int, ok *Term, which int, val Val) Val {
		out := Val{c.Const(64, uint64(int64(idx))), ok}
		k := 0
		for _, s := range in.States {
			if s.Dir != types.RecvOnly {
				continue
			}
			if k == which {
				out = append(out, val...)
			} else {
				out = append(out, e.zeroVal(recvTypes[k])...)
			}
			k++
		}
		return out
	}
	var outs []Outcome
	rk := 0
	for i, s := range in.States {
		ch := e.operand(fr, &st, s.Chan)[0]
		ET := s.Chan.Type().Underlying().(*types.Chan).Elem()
		choice := c.Fresh(fmt.Sprintf("select.case%d", i), Bool)
		if s.Dir == types.RecvOnly {
			open, v, closed, z := e.recvValue(st, ch, ET, in.Pos())
			outs = append(outs, Outcome{st: open.branch(choice), ret: mk(i, c.True, rk, v)})
			outs = append(outs, Outcome{st: closed.branch(choice), ret: mk(i, c.False, rk, z)})
			rk++
		} else {
			v := e.operand(fr, &st, s.Send)
			s2 := e.sendObligations(st.branch(choice), fr, ch, ET, v, in.Pos())
			s2 = e.recordSend(s2, ch, ET, v)
			outs = append(outs, Outcome{st: s2, ret: mk(i, c.False, -1, nil)})
		}
	}
	if !in.Blocking {
		outs = append(outs, Outcome{st: st.branch(c.Fresh("select.default", Bool)), ret: mk(-1, c.False, -1, nil)})
	}
	return outs
}

func (e *Exec) chanClose(fr *Frame, st State, cc *ssa.CallCommon, args []Val, pos token.Pos) []Outcome {
	c := e.c
	ch := args[0][0]
	st = e.oblige(st, fr.fn, "nopanic.chan", "close-of-closed", pos, c.Not(e.ghost(st, gkey("closed", ch), Bool)))
	st = st.setGhost(gkey("closed", ch), c.True)
	st = e.ghostInc(st, gkey("nclose", ch))
	return []Outcome{{st: st}}
}

// ---------- goroutines ----------

func hasLoopOrSelect(fn *ssa.Function) bool {
	for _, b := range fn.Blocks {
		if isLoopHeader(b) {
			return true
		}
	}
	return false
}

// goEnv: a spawned function without loops is run to completion in place (assumption: it is
// eventually scheduled and its blocking operations eventually complete); spawning a
// long-running worker is only logged (ghost counter per function).
func (e *Exec) goEnv(fr *Frame, st State, g *ssa.Go, fnv Val, args []Val) []Outcome {
	cc := g.Common()
	var fn *ssa.Function
	var binds []Val
	switch v := cc.Value.(type) {
	case *ssa.Function:
		fn = v
	case *ssa.MakeClosure:
		fn = v.Fn.(*ssa.Function)
	}
	if fn == nil && fnv != nil {
		if cl, ok := e.closures[fnv[0]]; ok {
			fn, binds = cl.fn, cl.binds
		}
	}
	if cl, ok := e.closures[e.maybe(fnv)]; ok && fn != nil {
		binds = cl.binds
	}
	if cc.IsInvoke() || fn == nil {
		e.fail("go statement with a dynamic callee")
	}
	name := shortFn(fn.String())
	st = e.ghostInc(st, "nspawn:"+name)
	for i, a := range args {
		for j, t := range a {
			st = st.setGhost(fmt.Sprintf("spawnarg:%s#%d.%d", name, i, j), t)
		}
	}
	if !e.P.isRepoFunc(fn) || hasLoopOrSelect(fn) || e.inStack(fr, fn) {
		e.assumed["go "+name+": spawn is logged, the worker is verified separately"] = true
		return []Outcome{{st: st}}
	}
	e.assumed["spawned goroutines without loops are run to completion in place (eventually scheduled)"] = true
	rec := recovers(fn)
	if rec {
		e.recovering++
	}
	outs := e.callStatic(fr, st, fn, args, binds, g.Pos())
	if rec {
		e.recovering--
	}
	var res []Outcome
	for _, o := range outs {
		res = append(res, Outcome{st: o.st})
	}
	return res
}

// recovers: the function defers a closure that calls recover().
func recovers(fn *ssa.Function) bool {
	for _, b := range fn.Blocks {
		for _, in := range b.Instrs {
			d, ok := in.(*ssa.Defer)
			if !ok {
				continue
			}
			var callee *ssa.Function
			switch v := d.Call.Value.(type) {
			case *ssa.Function:
				callee = v
			case *ssa.MakeClosure:
				callee = v.Fn.(*ssa.Function)
			}
			if callee == nil {
				continue
			}
			for _, cb := range callee.Blocks {
				for _, ci := range cb.Instrs {
					if c, ok := ci.(*ssa.Call); ok {
						if bi, ok := c.Call.Value.(*ssa.Builtin); ok && bi.Name() == "recover" {
							return true
						}
					}
				}
			}
		}
	}
	return false
}

func (e *Exec) maybe(v Val) *Term {
	if len(v) > 0 {
		return v[0]
	}
	return nil
}

func (fr *Frame) rootEntry(e *Exec) State { return e.rootEntrySt }

// netWrite records a write to the network in the ghost log.
func (e *Exec) netWrite(st State, b Val) State {
	st = e.ghostInc(st, "nwrite")
	st = st.setGhost("lastwrite.base", b[0])
	st = st.setGhost("lastwrite.len", b[1])
	e.assumed["assumed contract: one Write/WriteToUDP call hands the slice to the network as one unit"] = true
	return st
}

// addrNetwork: the string net.Addr.Network() returns, as a function of the address value.
func (e *Exec) addrNetwork(a Val) Val {
	c := e.c
	return Val{c.Apply("addr.network.ptr", BV(64), a[0], a[1]), c.Apply("addr.network.len", BV(64), a[0], a[1])}
}

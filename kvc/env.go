package main

// Environment operations (channels, select, goroutines, sync, time, net): DESIGN §2.4.5.
// Filled in by the protocol phase; until then they put a function outside reach.

import (
	"go/token"

	"golang.org/x/tools/go/ssa"
)

func (e *Exec) chanRecv(fr *Frame, st State, in *ssa.UnOp) []Outcome {
	e.fail("channel receive not supported yet")
	return nil
}
func (e *Exec) chanSend(fr *Frame, st State, in *ssa.Send) []Outcome {
	e.fail("channel send not supported yet")
	return nil
}
func (e *Exec) selectOp(fr *Frame, st State, in *ssa.Select) []Outcome {
	e.fail("select not supported yet")
	return nil
}
func (e *Exec) makeChan(fr *Frame, st *State, in *ssa.MakeChan) Val {
	e.fail("make(chan) not supported yet")
	return nil
}
func (e *Exec) chanClose(fr *Frame, st State, cc *ssa.CallCommon, args []Val, pos token.Pos) []Outcome {
	e.fail("close not supported yet")
	return nil
}
func (e *Exec) makeMap(fr *Frame, st *State, in *ssa.MakeMap) Val {
	e.fail("make(map) not supported yet")
	return nil
}
func (e *Exec) mapUpdate(fr *Frame, st *State, in *ssa.MapUpdate) {
	e.fail("map update not supported yet")
}
func (e *Exec) mapLookup(fr *Frame, st State, in *ssa.Lookup) []Outcome {
	e.fail("map lookup not supported yet")
	return nil
}
func (e *Exec) rangeOp(fr *Frame, st *State, in *ssa.Range) Val {
	e.fail("range not supported yet")
	return nil
}
func (e *Exec) nextOp(fr *Frame, st State, in *ssa.Next) []Outcome {
	e.fail("next not supported yet")
	return nil
}
func (e *Exec) externalEnv(fr *Frame, st State, fn *ssa.Function, args []Val, pos token.Pos) ([]Outcome, bool) {
	return nil, false
}
func (e *Exec) externalInvokeEnv(fr *Frame, st State, cc *ssa.CallCommon, recv Val, args []Val, pos token.Pos) ([]Outcome, bool) {
	return nil, false
}
func (e *Exec) goEnv(fr *Frame, st State, g *ssa.Go, fnv Val, args []Val) []Outcome {
	e.fail("go statement not supported yet")
	return nil
}
func (e *Exec) stringToRunes(fr *Frame, st *State, x Val) Val {
	e.fail("[]rune(string) not supported yet")
	return nil
}
func (e *Exec) runesToString(fr *Frame, st *State, x Val) Val {
	e.fail("string([]rune) not supported yet")
	return nil
}

package main

// Forward symbolic execution of go/ssa functions (DESIGN §2, Appendix B).

import (
	"crypto/sha1"
	"fmt"
	"go/token"
	"go/types"
	"os"
	"strings"
	"sync"
	"time"

	"golang.org/x/tools/go/ssa"
)

type Val []*Term

type pcNode struct {
	t    *Term
	prev *pcNode
	n    int
	br   bool // a branch decision (as opposed to an assumed fact)
}

type ghostNode struct {
	name string
	val  *Term
	prev *ghostNode
}

type State struct {
	pc       *pcNode
	h        [4]*HeapLayer
	brk      *Term
	ghost    *ghostNode
	gepoch   int
	kepoch   *ghostNode // per-kind epochs (name = kind, val = const epoch)
	lastHead *State     // state at the head of the loop iteration this path is in (cut loops)
}

func (st State) assume(t *Term) State {
	if t.IsTrue() {
		return st
	}
	if t.Op == OAnd {
		for _, a := range t.Args {
			st = st.assume(a)
		}
		return st
	}
	n := 1
	if st.pc != nil {
		n = st.pc.n + 1
	}
	st.pc = &pcNode{t: t, prev: st.pc, n: n}
	return st
}

// branch records a control-flow decision.
func (st State) branch(t *Term) State {
	if t.IsTrue() {
		return st
	}
	n := 1
	if st.pc != nil {
		n = st.pc.n + 1
	}
	st.pc = &pcNode{t: t, prev: st.pc, n: n, br: true}
	return st
}

func (st State) pcList() []*Term {
	var out []*Term
	for p := st.pc; p != nil; p = p.prev {
		out = append(out, p.t)
	}
	// reverse
	for i, j := 0, len(out)-1; i < j; i, j = i+1, j-1 {
		out[i], out[j] = out[j], out[i]
	}
	return out
}

// known reports whether t is syntactically decided by the path condition.
func (st State) known(t *Term) (bool, bool) {
	var neg *Term
	if t.Op == ONot {
		neg = t.Args[0]
	}
	for p := st.pc; p != nil; p = p.prev {
		if p.t == t {
			return true, true
		}
		if neg != nil && p.t == neg {
			return false, true
		}
		if p.t.Op == ONot && p.t.Args[0] == t {
			return false, true
		}
	}
	return false, false
}

// tagAlternatives looks for a path-condition conjunct restricting a type tag to a set of
// constants (tag == c, or a disjunction of such equalities possibly conjoined with more).
func (st State) tagAlternatives(tag *Term) map[uint64]bool {
	isEq := func(t *Term) (uint64, bool) {
		if t.Op == OEq && (t.Args[0] == tag && t.Args[1].IsConst() || t.Args[1] == tag && t.Args[0].IsConst()) {
			if t.Args[0] == tag {
				return t.Args[1].C, true
			}
			return t.Args[0].C, true
		}
		return 0, false
	}
	var best map[uint64]bool
	var work []*Term
	for p := st.pc; p != nil; p = p.prev {
		work = append(work, p.t)
	}
	for len(work) > 0 {
		t := work[len(work)-1]
		work = work[:len(work)-1]
		if t.Op == OImp {
			if v, ok := st.known(t.Args[0]); ok && v {
				if t.Args[1].Op == OAnd {
					work = append(work, t.Args[1].Args...)
				} else {
					work = append(work, t.Args[1])
				}
			}
			continue
		}
		if v, ok := isEq(t); ok {
			return map[uint64]bool{v: true}
		}
		if t.Op != OOr {
			continue
		}
		set := map[uint64]bool{}
		ok := true
		for _, d := range t.Args {
			if v, y := isEq(d); y {
				set[v] = true
				continue
			}
			found := false
			if d.Op == OAnd {
				for _, cj := range d.Args {
					if v, y := isEq(cj); y {
						set[v] = true
						found = true
						break
					}
				}
			}
			if !found {
				ok = false
				break
			}
		}
		if ok && (best == nil || len(set) < len(best)) {
			best = set
		}
	}
	return best
}

func (e *Exec) knownCond(st State, t *Term) (bool, bool) {
	if v, ok := st.known(t); ok {
		return v, ok
	}
	var neg *Term
	if t.Op == ONot {
		neg = t.Args[0]
	}
	for _, a := range e.axioms {
		if a == t {
			return true, true
		}
		if neg != nil && a == neg || a.Op == ONot && a.Args[0] == t {
			return false, true
		}
	}
	return false, false
}

func (st State) pcFalse() bool {
	for p := st.pc; p != nil; p = p.prev {
		if p.t.IsFalse() {
			return true
		}
	}
	return false
}

func (st State) getGhost(name string) *Term {
	for g := st.ghost; g != nil; g = g.prev {
		if g.name == name {
			return g.val
		}
	}
	return nil
}

func (st State) setGhost(name string, v *Term) State {
	st.ghost = &ghostNode{name: name, val: v, prev: st.ghost}
	return st
}

type Outcome struct {
	st  State
	ret Val
}

type deferred struct {
	call *ssa.CallCommon
	args []Val
	fnv  Val
	pos  token.Pos
}

type loopCut struct {
	headState State
	variant   *Term
	variantT  types.Type
	regsAt    map[ssa.Value]Val
	limit     *Term
}

type Frame struct {
	fn     *ssa.Function
	regs   map[ssa.Value]Val
	visits map[*ssa.BasicBlock]int
	defers []deferred
	depth  int
	loops  map[*ssa.BasicBlock]*loopCut
	args   []Val
	entry  State
	ct     *FuncContract
	root   bool
	// decoder confinement: root symbols of input-derived slices
	confine map[*Term]bool
	binds   []Val // closure bindings (addresses of captured cells / values)
	iters   map[ssa.Value]*mapIter
}

func (fr *Frame) clone() *Frame {
	n := *fr
	n.regs = make(map[ssa.Value]Val, len(fr.regs)+8)
	for k, v := range fr.regs {
		n.regs[k] = v
	}
	if fr.iters != nil {
		n.iters = map[ssa.Value]*mapIter{}
		for k, v := range fr.iters {
			c := *v
			n.iters[k] = &c
		}
	}
	n.visits = make(map[*ssa.BasicBlock]int, len(fr.visits))
	for k, v := range fr.visits {
		n.visits[k] = v
	}
	n.loops = make(map[*ssa.BasicBlock]*loopCut, len(fr.loops))
	for k, v := range fr.loops {
		n.loops[k] = v
	}
	n.defers = append([]deferred(nil), fr.defers...)
	return &n
}

type Obligation struct {
	Name     string
	Kind     string
	Label    string
	Func     string
	Pos      string
	Props    []string
	PropLvl  bool    // property-level (may raise a VIOLATION)
	Asserts  []*Term // hypotheses in the goal's cone of influence + negated goal
	Full     []*Term // all hypotheses + negated goal (used to confirm a sat answer)
	Goal     string
	ctx      *Ctx
	exec     *Exec
	queries  []*Term // terms to evaluate in a model
	qnames   []string
	Trivial  bool    // goal folded to true syntactically
	retVals  Val     // cover.return: the values returned on this path (conformance runs)
	retSt    *State  // cover.return: the final state of this path
	Hints    []*Term // cover obligations only: extra equalities that pick one concrete witness (sound: sat with hints implies sat without)
	TimeoutS int     // per-function override of the quick-tier solver timeout

	// filled by discharge
	Result string // unsat / sat / unknown / timeout
	Solver string
	Millis int64
	Model  map[string]string
	Size   int
	Output string
}

type ExecConfig struct {
	unroll      int
	inlineDepth int
	maxPaths    int
}

type Exec struct {
	P       *Program
	c       *Ctx
	cfg     ExecConfig
	regions map[*Term]*Region
	seq     int
	obls    []*Obligation
	axioms  []*Term
	rootFn  *ssa.Function
	rootCt  *FuncContract
	paths   int
	diag    []string
	unsup   []string // reasons the function is outside reach
	globals map[*ssa.Global]*Term
	strs    map[string]Val
	hints   []*Term // witness hints for vacuity covers
	closFn  []*ssa.Function
	base    [4]*Term
	brk0    *Term
	// statistics
	inlined  map[string]bool
	viaCt    map[string]bool
	assumed  map[string]bool
	lineHash map[string]int
	// inputs for replay: param name -> Val
	paramVals    []Val
	paramNames   []string
	curProps     []string
	mode         string
	closures     map[*Term]*closure
	constGlobals map[*Term]bool
	locals       []*Region
	stack        []*ssa.Function
	forceInline  bool
	convRange    []*Term // in-range conditions of the float->int conversions met so far
	abstractions int     // contract applications, invariant-cut loops and assumed externals met so far (conformance runs need 0)
	noCut        bool
	yieldMode    bool // second run of a function with 'yields' clauses: loops unrolled, results must be terms over the arguments
	prune        bool
	nFeas        int
	freshGhost   map[uint32]bool
	ghostBounded map[*Term]bool
	recovering   int
	gepochs      int
	rootEntrySt  State
	escaped      map[*Term]bool
	times        map[*Term]civil
	fpBits       map[*Term]*Term
	fpOf         map[*Term]*Term
	globalList   []*Region
	initMode     bool
	rootDet      *cval
	mute         int
	steps        int
	maxSteps     int
	started      time.Time
	execBudget   time.Duration
	noDecr       []string
	bounded      []string
}

func newExec(P *Program) *Exec {
	e := &Exec{P: P, c: NewCtx(), regions: map[*Term]*Region{}, globals: map[*ssa.Global]*Term{},
		strs: map[string]Val{}, inlined: map[string]bool{}, viaCt: map[string]bool{},
		assumed: map[string]bool{}, lineHash: map[string]int{}, closures: map[*Term]*closure{}, constGlobals: map[*Term]bool{}, fpBits: map[*Term]*Term{}, fpOf: map[*Term]*Term{}, times: map[*Term]civil{}, escaped: map[*Term]bool{}, ghostBounded: map[*Term]bool{}, freshGhost: map[uint32]bool{}}
	e.cfg = ExecConfig{unroll: 40, inlineDepth: 8, maxPaths: 20000}
	e.maxSteps = 3000000
	// wall-clock budget of one function's symbolic execution: a function that cannot be explored
	// within it is reported as outside reach (never as proved) instead of hanging the check
	e.started = time.Now()
	e.execBudget = 300 * time.Second
	if v := os.Getenv("KVC_EXEC_BUDGET"); v != "" {
		if d, err := time.ParseDuration(v); err == nil {
			e.execBudget = d
		}
	}
	for i, w := range heapWidths {
		e.base[i] = e.c.Var(fmt.Sprintf("H%d", w), Sort{KArr, w})
	}
	e.brk0 = e.c.Var("BRK0", BV(64))
	e.axioms = append(e.axioms, e.c.Ule(e.c.Const(64, 16), e.brk0), e.c.Ult(e.brk0, e.c.Const(64, 1<<61)))
	return e
}

func (e *Exec) initState() State {
	var st State
	for i, w := range heapWidths {
		st.h[i] = &HeapLayer{kind: lBase, arr: e.base[i], w: w}
	}
	st.brk = e.brk0
	return st
}

type unsupported struct{ msg string }

func (e *Exec) fail(format string, a ...interface{}) {
	panic(unsupported{fmt.Sprintf(format, a...)})
}

// tick enforces the wall-clock budget of one function's symbolic execution.
func (e *Exec) tick() {
	if e.execBudget > 0 && time.Since(e.started) > e.execBudget {
		e.fail("time budget (%v) of the symbolic execution exceeded in %s", e.execBudget, e.rootFn)
	}
}

func (e *Exec) note(format string, a ...interface{}) {
	e.diag = append(e.diag, fmt.Sprintf(format, a...))
}

// ---------- regions / allocation ----------

func (e *Exec) registerInput(base *Term, size *Term) {
	if _, ok := e.regions[base]; ok {
		return
	}
	e.seq++
	e.regions[base] = &Region{base: base, size: size, fresh: false, seq: e.seq}
}

// alloc reserves n slots (n is a BV64 term) and returns the base address.
func (e *Exec) alloc(st State, n *Term, what string) (State, *Term) {
	c := e.c
	a := c.Fresh("A."+what, BV(64))
	e.seq++
	e.regions[a] = &Region{base: a, size: n, fresh: true, seq: e.seq}
	st = st.assume(c.Eq(a, st.brk))
	// allocate at least one slot so that distinct objects have distinct addresses
	sz := n
	if n.IsConst() {
		if n.C == 0 {
			sz = c.Const(64, 1)
		}
	} else {
		sz = c.Add(n, c.Const(64, 1))
	}
	nb := c.Add(a, sz)
	if !nb.IsConst() && !n.IsConst() {
		st = st.assume(c.Ult(nb, c.Const(64, 1<<62)))
	}
	st.brk = nb
	return st, a
}

func (e *Exec) zeroRange(st State, T types.Type, a *Term, count *Term) State {
	// zero count elements of type T starting at a
	sl := e.P.lay.slots(T)
	c := e.c
	n := c.Mul(count, c.Const(64, uint64(len(sl))))
	used := [4]bool{}
	for _, k := range sl {
		used[k.heapIdx()] = true
	}
	if n.IsConst() && n.C <= 24 {
		for i := uint64(0); i < n.C; i++ {
			k := sl[int(i)%len(sl)]
			hi := k.heapIdx()
			st.h[hi] = e.store(st.h[hi], c.Add(a, c.Const(64, i)), c.Const(heapWidths[hi], 0))
		}
		return st
	}
	for hi := range used {
		if used[hi] {
			st.h[hi] = st.h[hi].push(HeapLayer{kind: lZero, addr: a, n: n})
		}
	}
	return st
}

// ---------- load / store of multi-slot values ----------

func (e *Exec) toReg(k SlotKind, cell *Term) *Term {
	switch k {
	case SBool:
		return e.c.Ne(cell, e.c.Const(8, 0))
	case SF32, SF64:
		return e.fpFromBits(cell)
	}
	return cell
}

func (e *Exec) toCell(k SlotKind, reg *Term) *Term {
	switch k {
	case SBool:
		return e.c.Ite(reg, e.c.Const(8, 1), e.c.Const(8, 0))
	case SF32, SF64:
		return e.fpToBits(reg)
	}
	return reg
}

func (e *Exec) loadFrom(h [4]*HeapLayer, a *Term, T types.Type) Val {
	sl := e.P.lay.slots(T)
	out := make(Val, len(sl))
	for i, k := range sl {
		out[i] = e.toReg(k, e.read(h[k.heapIdx()], e.c.Add(a, e.c.Const(64, uint64(i)))))
	}
	return out
}

func (e *Exec) load(st State, a *Term, T types.Type) (State, Val) {
	if e.initMode && strings.HasSuffix(addrRoot(a).Name, ".init$guard") {
		return st, Val{e.c.False}
	}
	if e.constGlobals[addrRoot(a)] {
		// immutable package-level variable: read the initial heap
		return st, e.loadFrom(e.initState().h, a, T)
	}
	v := e.loadFrom(st.h, a, T)
	st = e.assumeValid(st, T, v, false)
	return st, v
}

func (e *Exec) storeVal(st State, a *Term, T types.Type, v Val) State {
	sl := e.P.lay.slots(T)
	if len(sl) != len(v) {
		panic(fmt.Sprintf("storeVal: %v needs %d slots, got %d", T, len(sl), len(v)))
	}
	for i, k := range sl {
		hi := k.heapIdx()
		if k == S64 {
			if r := addrRoot(v[i]); e.regions[r] != nil && e.regions[r].fresh {
				e.escaped[r] = true // its address is now reachable through memory
			}
		}
		st.h[hi] = e.store(st.h[hi], e.c.Add(a, e.c.Const(64, uint64(i))), e.toCell(k, v[i]))
	}
	return st
}

func typeContains(T, E types.Type) bool {
	if types.Identical(T, E) {
		return true
	}
	switch t := T.Underlying().(type) {
	case *types.Struct:
		for i := 0; i < t.NumFields(); i++ {
			if typeContains(t.Field(i).Type(), E) {
				return true
			}
		}
	case *types.Array:
		return typeContains(t.Elem(), E)
	}
	return false
}

// typeDisjoint: a pointer/slice of element type E that came from unknown memory cannot
// point into a local variable whose type does not contain an E (Go allocations are typed).
func (e *Exec) typeDisjoint(st State, base, nslots *Term, E types.Type, belowEntry bool) State {
	return e.typeDisjointIf(st, e.c.True, base, nslots, E, belowEntry)
}

func (e *Exec) typeDisjointIf(st State, cond, base, nslots *Term, E types.Type, belowEntry bool) State {
	c := e.c
	for _, r := range e.locals {
		if r.T == nil || typeContains(r.T, E) {
			continue
		}
		if belowEntry && r.fresh {
			continue // already separated by the allocation frontier
		}
		st = st.assume(c.Imp(cond, c.Or(c.Ule(c.Add(base, nslots), r.base), c.Ule(c.Add(r.base, c.Const(64, r.n)), base))))
	}
	return st
}

// fromInitialHeap: the term is a cell of the heap as it was on function entry.
func (e *Exec) fromInitialHeap(t *Term) bool {
	if t.Op != OSelect {
		return false
	}
	for _, b := range e.base {
		if t.Args[0] == b {
			return true
		}
	}
	return false
}

func unknownMem(t *Term) bool {
	switch t.Op {
	case OSelect, OIte:
		return true
	}
	return false
}

// assumeValid adds the Go type invariants of a value that came from unknown memory or
// from the caller (well-formed slice headers, allocated pointers, known dynamic types).
func (e *Exec) assumeValid(st State, T types.Type, v Val, input bool) State {
	c := e.c
	switch t := T.Underlying().(type) {
	case *types.Slice:
		if !input && !unknownMem(v[0]) && !unknownMem(v[1]) && !unknownMem(v[2]) {
			return st
		}
		es := uint64(e.P.lay.nslots(t.Elem()))
		base, ln, cp := v[0], v[1], v[2]
		lim := st.brk
		if e.fromInitialHeap(base) {
			lim = e.brk0
		}
		st = st.assume(c.Ule(ln, cp))
		st = st.assume(c.Ule(cp, c.Const(64, 1<<32)))
		end := c.Add(base, c.Mul(cp, c.Const(64, es)))
		st = st.assume(c.Or(c.Eq(cp, c.Const(64, 0)), c.And(c.Ule(c.Const(64, 1), base), c.Ule(base, lim), c.Ule(end, lim))))
		if input {
			e.registerInput(base, cp)
		} else {
			st = e.typeDisjoint(st, base, c.Mul(cp, c.Const(64, es)), t.Elem(), lim == e.brk0)
		}
	case *types.Basic:
		if t.Info()&types.IsString != 0 {
			if !input && !unknownMem(v[0]) && !unknownMem(v[1]) {
				return st
			}
			st = st.assume(c.Ule(v[1], c.Const(64, 1<<32)))
			st = st.assume(c.Or(c.Eq(v[1], c.Const(64, 0)), c.And(c.Ule(c.Const(64, 1), v[0]), c.Ule(c.Add(v[0], v[1]), st.brk))))
			if input {
				e.registerInput(v[0], v[1])
			}
		}
	case *types.Pointer:
		if !input && !unknownMem(v[0]) {
			return st
		}
		n := uint64(e.P.lay.nslots(t.Elem()))
		if n == 0 {
			n = 1
		}
		lim := st.brk
		if e.fromInitialHeap(v[0]) {
			lim = e.brk0
		}
		st = st.assume(c.Or(c.Eq(v[0], c.Const(64, 0)), c.And(c.Ule(c.Const(64, 1), v[0]), c.Ule(v[0], lim), c.Ule(c.Add(v[0], c.Const(64, n)), lim))))
		if !input {
			st = e.typeDisjoint(st, v[0], c.Const(64, n), t.Elem(), lim == e.brk0)
		}
		if input {
			e.registerInput(v[0], c.Const(64, n))
			if r := e.regions[v[0]]; r != nil && r.T == nil {
				r.T = t.Elem()
				r.n = n
				e.locals = append(e.locals, r)
			}
		}
	case *types.Interface:
		if !input && !unknownMem(v[0]) {
			return st
		}
		// closed world: dynamic type is nil or one of the repo's implementers
		impls := e.P.implementers(t)
		if t.NumMethods() == 0 || len(impls) == 0 {
			// empty interface / foreign interface (error, net.Addr ...): tag unconstrained
			st = st.assume(c.Imp(c.Eq(v[0], c.Const(64, 0)), c.Eq(v[1], c.Const(64, 0))))
			return st
		}
		lim := st.brk
		if e.fromInitialHeap(v[1]) {
			lim = e.brk0
		}
		var alts []*Term
		alts = append(alts, c.And(c.Eq(v[0], c.Const(64, 0)), c.Eq(v[1], c.Const(64, 0))))
		for _, I := range impls {
			n := uint64(1)
			if p, ok := I.Underlying().(*types.Pointer); ok {
				n = uint64(e.P.lay.nslots(p.Elem()))
			} else {
				n = uint64(e.P.lay.nslots(I))
			}
			if n == 0 {
				n = 1
			}
			alts = append(alts, c.And(c.Eq(v[0], c.Const(64, e.P.tag(I))),
				c.Ule(c.Const(64, 1), v[1]), c.Ule(v[1], lim), c.Ule(c.Add(v[1], c.Const(64, n)), lim)))
			if p, ok := I.Underlying().(*types.Pointer); ok {
				// under this dynamic type the payload is a *T: it cannot point into objects without a T
				st = e.typeDisjointIf(st, c.Eq(v[0], c.Const(64, e.P.tag(I))), v[1], c.Const(64, n), p.Elem(), lim == e.brk0)
			}
		}
		st = st.assume(c.Or(alts...))
	case *types.Struct:
		off := 0
		for i := 0; i < t.NumFields(); i++ {
			n := e.P.lay.nslots(t.Field(i).Type())
			st = e.assumeValid(st, t.Field(i).Type(), v[off:off+n], input)
			off += n
		}
	}
	return st
}

// ---------- obligations ----------

func (e *Exec) srcLine(p token.Pos) string {
	if !p.IsValid() {
		return ""
	}
	ps := e.P.fset.Position(p)
	data, err := readFileCached(ps.Filename)
	if err != nil {
		return ""
	}
	lines := strings.Split(data, "\n")
	if ps.Line-1 < len(lines) {
		return strings.TrimSpace(lines[ps.Line-1])
	}
	return ""
}

var fileCache = map[string]string{}
var fileMu sync.Mutex

func readFileCached(name string) (string, error) {
	fileMu.Lock()
	defer fileMu.Unlock()
	if s, ok := fileCache[name]; ok {
		return s, nil
	}
	b, err := os.ReadFile(name)
	if err != nil {
		return "", err
	}
	fileCache[name] = string(b)
	return string(b), nil
}

func hash8(s string) string {
	h := sha1.Sum([]byte(s))
	return fmt.Sprintf("%x", h[:4])
}

// oblige records goal as an obligation under the current path condition and then
// assumes it (execution continues on the non-failing side).
func (e *Exec) oblige(st State, fn *ssa.Function, kind, label string, pos token.Pos, goal *Term) State {
	c := e.c
	if st.pcFalse() {
		return st
	}
	if e.mute > 0 {
		// pure evaluation inside a contract expression: the callee is verified on its own
		return st.assume(goal)
	}
	if goal.Op == OAnd && len(goal.Args) >= 16 {
		// a large ground conjunction: one instance per conjunct (each is small for the solver)
		s2 := st
		for _, g := range goal.Args {
			e.oblige(st, fn, kind, label, pos, g)
		}
		return s2.assume(goal)
	}
	fname := "?"
	if fn != nil {
		fname = fn.String()
	}
	src := e.srcLine(pos)
	name := fmt.Sprintf("%s#%s", shortFn(fname), kind)
	if label != "" {
		name += ":" + label
	}
	if src != "" && (label == "" || kind == "pre") {
		name += "@" + hash8(src)
	}
	if e.rootFn != nil && fn != nil && fn != e.rootFn {
		name += " [in " + shortFn(e.rootFn.String()) + "]"
	}
	ob := &Obligation{Name: name, Kind: kind, Label: label, Func: fname, Pos: e.P.pos(pos), ctx: c, exec: e,
		Goal: c.Show(goal)}
	if goal.IsTrue() {
		ob.Trivial = true
		ob.Result = "unsat"
		ob.Solver = "simplifier"
	} else {
		hyps := append([]*Term{}, e.axioms...)
		hyps = append(hyps, st.pcList()...)
		ng := c.Not(goal)
		ob.Full = append(append([]*Term{}, hyps...), ng)
		ob.Asserts = append(c.relevant(hyps, ng), ng)
	}
	ob.Props = e.curProps
	if e.rootCt != nil {
		ob.TimeoutS = e.rootCt.Timeout
	}
	e.obls = append(e.obls, ob)
	return st.assume(goal)
}

func shortFn(s string) string {
	s = strings.ReplaceAll(s, modPath+"/knx/", "")
	s = strings.ReplaceAll(s, modPath+"/", "")
	return s
}

// ---------- running a function ----------

func (e *Exec) newFrame(fn *ssa.Function, args []Val, st State, depth int) *Frame {
	fr := &Frame{fn: fn, regs: map[ssa.Value]Val{}, visits: map[*ssa.BasicBlock]int{},
		loops: map[*ssa.BasicBlock]*loopCut{}, depth: depth, args: args, entry: st}
	if len(args) != len(fn.Params) {
		panic(fmt.Sprintf("call %s: %d args for %d params", fn, len(args), len(fn.Params)))
	}
	for i, p := range fn.Params {
		fr.regs[p] = args[i]
	}
	return fr
}

// execFn runs fn's body on args; every normally-returning path yields an Outcome.
func (e *Exec) execFn(fn *ssa.Function, args []Val, binds []Val, st State, depth int, parent *Frame) []Outcome {
	if len(fn.Blocks) == 0 {
		e.fail("function %s has no body", fn)
	}
	if depth > e.cfg.inlineDepth+6 {
		e.fail("inline depth exceeded at %s", fn)
	}
	fr := e.newFrame(fn, args, st, depth)
	fr.binds = binds
	if parent != nil {
		fr.confine = parent.confine
	}
	return e.execFrom(fr, st, fn.Blocks[0], nil, 0)
}

func isBackEdge(from, to *ssa.BasicBlock) bool {
	return to.Dominates(from)
}

func isLoopHeader(b *ssa.BasicBlock) bool {
	for _, p := range b.Preds {
		if isBackEdge(p, b) {
			return true
		}
	}
	return false
}

// loopOrdinal returns the index of header b among the function's loop headers in
// source (block index) order.
func loopOrdinal(b *ssa.BasicBlock) int {
	n := 0
	for _, x := range b.Parent().Blocks {
		if x == b {
			return n
		}
		if isLoopHeader(x) {
			n++
		}
	}
	return -1
}

func (e *Exec) execFrom(fr *Frame, st State, b *ssa.BasicBlock, prev *ssa.BasicBlock, idx int) []Outcome {
	if st.pcFalse() {
		return nil
	}
	if idx == 0 && isLoopHeader(b) {
		var stop bool
		st, stop = e.enterLoopHeader(fr, st, b, prev)
		if stop {
			return nil
		}
	}
	for i := idx; i < len(b.Instrs); i++ {
		instr := b.Instrs[i]
		e.steps++
		if e.maxSteps > 0 && e.steps > e.maxSteps {
			e.fail("step budget exceeded in %s", e.rootFn)
		}
		if e.steps&63 == 0 {
			e.tick()
		}
		switch in := instr.(type) {
		case *ssa.Phi:
			if lc := fr.loops[b]; lc != nil && lc.regsAt != nil {
				// invariant-cut loop: phi values were havocked on entry (enterLoopHeader)
				continue
			}
			pi := -1
			for k, p := range b.Preds {
				if p == prev {
					pi = k
				}
			}
			if pi < 0 {
				e.fail("phi without predecessor in %s", fr.fn)
			}
			fr.regs[in] = e.operand(fr, &st, in.Edges[pi])
		case *ssa.If:
			cond := e.operand(fr, &st, in.Cond)[0]
			if cond.IsTrue() {
				return e.execFrom(fr, st, b.Succs[0], b, 0)
			}
			if cond.IsFalse() {
				return e.execFrom(fr, st, b.Succs[1], b, 0)
			}
			if v, ok := e.knownCond(st, cond); ok {
				if v {
					return e.execFrom(fr, st, b.Succs[0], b, 0)
				}
				return e.execFrom(fr, st, b.Succs[1], b, 0)
			}
			if e.prune {
				// many paths already: ask the solver which branches are feasible at all
				f1 := e.feasible(st.branch(cond))
				f2 := e.feasible(st.branch(e.c.Not(cond)))
				switch {
				case f1 && !f2:
					return e.execFrom(fr, st.assume(cond), b.Succs[0], b, 0)
				case !f1 && f2:
					return e.execFrom(fr, st.assume(e.c.Not(cond)), b.Succs[1], b, 0)
				case !f1 && !f2:
					return nil
				}
			}
			e.paths++
			if os.Getenv("KVC_FORKS") != "" {
				e.lineHash[e.P.pos(in.Cond.Pos())+" "+shortFn(fr.fn.String())]++
				if os.Getenv("KVC_FORKS") == "2" {
					fmt.Fprintf(os.Stderr, "fork %s: %s\n", e.P.pos(in.Cond.Pos()), e.c.Show(cond))
				}
			}
			if e.paths > e.cfg.maxPaths {
				e.fail("path budget exceeded in %s", e.rootFn)
			}
			fr2 := fr.clone()
			o1 := e.execFrom(fr, st.branch(cond), b.Succs[0], b, 0)
			o2 := e.execFrom(fr2, st.branch(e.c.Not(cond)), b.Succs[1], b, 0)
			return append(o1, o2...)
		case *ssa.Jump:
			return e.execFrom(fr, st, b.Succs[0], b, 0)
		case *ssa.Return:
			var ret Val
			for _, r := range in.Results {
				ret = append(ret, e.operand(fr, &st, r)...)
			}
			return []Outcome{{st: st, ret: ret}}
		case *ssa.Panic:
			e.oblige(st, fr.fn, "nopanic.panic", "", in.Pos(), e.c.False)
			return nil
		case *ssa.RunDefers:
			outs := e.runDefers(fr, st)
			var res []Outcome
			for k, o := range outs {
				f := fr
				if k < len(outs)-1 {
					f = fr.clone()
				}
				f.defers = nil
				res = append(res, e.execFrom(f, o.st, b, prev, i+1)...)
			}
			return res
		case ssa.CallInstruction:
			if d, ok := in.(*ssa.Defer); ok {
				e.pushDefer(fr, &st, d)
				continue
			}
			outs := e.doCall(fr, st, in)
			var res []Outcome
			for k, o := range outs {
				f := fr
				if k < len(outs)-1 {
					f = fr.clone()
				}
				if v, ok := in.(ssa.Value); ok {
					f.regs[v] = o.ret
				}
				res = append(res, e.execFrom(f, o.st, b, prev, i+1)...)
			}
			return res
		default:
			forks := e.step(fr, &st, instr)
			if forks != nil {
				// instruction forked (e.g. append): continue each
				var res []Outcome
				for k, o := range forks {
					f := fr
					if k < len(forks)-1 {
						f = fr.clone()
					}
					if v, ok := instr.(ssa.Value); ok {
						f.regs[v] = o.ret
					}
					res = append(res, e.execFrom(f, o.st, b, prev, i+1)...)
				}
				return res
			}
			if st.pcFalse() {
				return nil
			}
		}
	}
	return nil
}

// operand evaluates an SSA operand.
func (e *Exec) operand(fr *Frame, st *State, v ssa.Value) Val {
	switch x := v.(type) {
	case *ssa.Const:
		return e.constVal(x)
	case *ssa.Global:
		return Val{e.globalAddr(x)}
	case *ssa.Function:
		return Val{e.funcValue(x)}
	case *ssa.Builtin:
		e.fail("builtin %s used as value", x.Name())
	case *ssa.FreeVar:
		for i, fv := range fr.fn.FreeVars {
			if fv == x {
				return fr.binds[i]
			}
		}
		e.fail("free var %s not bound", x.Name())
	}
	if r, ok := fr.regs[v]; ok {
		return r
	}
	e.fail("no value for %s (%T) in %s", v.Name(), v, fr.fn)
	return nil
}

func (e *Exec) funcValue(fn *ssa.Function) *Term {
	for i, f := range e.closFn {
		if f == fn {
			return e.c.Const(64, uint64(0xF000000000000000)+uint64(i))
		}
	}
	e.closFn = append(e.closFn, fn)
	return e.c.Const(64, uint64(0xF000000000000000)+uint64(len(e.closFn)-1))
}

func (e *Exec) globalAddr(g *ssa.Global) *Term {
	if a, ok := e.globals[g]; ok {
		return a
	}
	c := e.c
	name := g.Name()
	if g.Pkg != nil {
		name = g.Pkg.Pkg.Name() + "." + name
	}
	a := c.Var("G."+name, BV(64))
	e.globals[g] = a
	T := g.Type().(*types.Pointer).Elem()
	n := uint64(e.P.lay.nslots(T))
	if n == 0 {
		n = 1
	}
	e.registerInput(a, c.Const(64, n))
	e.regions[a].global = true
	e.axioms = append(e.axioms, c.Ule(c.Const(64, 1), a), c.Ule(c.Add(a, c.Const(64, n)), e.brk0), c.Ult(a, e.brk0))
	for _, o := range e.globalList {
		// distinct package-level objects do not overlap
		e.axioms = append(e.axioms, c.Or(c.Ule(c.Add(a, c.Const(64, n)), o.base), c.Ule(c.Add(o.base, o.size), a)))
	}
	e.globalList = append(e.globalList, e.regions[a])
	// assumed initial values (DESIGN §2.3.8, §2.4.6)
	if _, isI := T.Underlying().(*types.Interface); isI {
		tag := c.Select(e.base[3], a)
		word := c.Select(e.base[3], c.Add(a, c.Const(64, 1)))
		switch {
		case name == "util.Logger":
			e.axioms = append(e.axioms, c.Eq(tag, c.Const(64, 0)), c.Eq(word, c.Const(64, 0)))
			e.assumed["util.Logger == nil (no logger installed)"] = true
			e.constGlobals[a] = true
		case types.Identical(T, types.Universe.Lookup("error").Type()):
			// error variables are initialised once to a non-nil value and never reassigned
			e.axioms = append(e.axioms, c.Ne(tag, c.Const(64, 0)), c.Ne(word, c.Const(64, 0)),
				c.Ult(word, e.brk0))
			e.assumed["package-level error variables are non-nil and never reassigned"] = true
			e.constGlobals[a] = true
		}
	}
	if v, ok := e.P.globalInit[g]; ok {
		// constant initial value established by package init and never written again
		sl := e.P.lay.slots(T)
		for i, k := range sl {
			cell := c.Select(e.base[k.heapIdx()], c.Add(a, c.Const(64, uint64(i))))
			e.axioms = append(e.axioms, c.Eq(cell, c.Const(k.width(), v[i])))
			_ = regSort
		}
		e.constGlobals[a] = true
	}
	return a
}

func (e *Exec) strConst(s string) Val {
	if v, ok := e.strs[s]; ok {
		return v
	}
	c := e.c
	if len(s) == 0 {
		v := Val{c.Const(64, 0), c.Const(64, 0)}
		e.strs[s] = v
		return v
	}
	a := c.Var(fmt.Sprintf("S.%d", len(e.strs)), BV(64))
	e.registerInput(a, c.Const(64, uint64(len(s))))
	e.regions[a].global = true
	e.axioms = append(e.axioms, c.Ule(c.Const(64, 1), a), c.Ule(c.Add(a, c.Const(64, uint64(len(s)))), e.brk0), c.Ult(a, e.brk0))
	if len(s) <= 64 {
		for i := 0; i < len(s); i++ {
			e.axioms = append(e.axioms, c.Eq(c.Select(e.base[0], c.Add(a, c.Const(64, uint64(i)))), c.Const(8, uint64(s[i]))))
		}
	}
	v := Val{a, c.Const(64, uint64(len(s)))}
	e.strs[s] = v
	return v
}

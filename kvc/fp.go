package main

// Floating point (DESIGN §2.3.5): float registers are FP-sorted terms; memory cells and
// bit casts use the IEEE bit pattern. fp -> bits introduces a fresh bit-vector r with the
// defining axiom to_fp(r) = x (NaN payloads stay unconstrained).

import (
	"fmt"
	"go/token"
	"go/types"
	"math"
	"math/big"
)

func fpSort(w int) Sort { return Sort{KFP, w} }

func fpToFp(w int) string {
	if w == 32 {
		return "(_ to_fp 8 24)"
	}
	return "(_ to_fp 11 53)"
}

func (e *Exec) fpFromBits(bits *Term) *Term {
	if bits.Op == OVar {
		if fp, ok := e.fpOf[bits]; ok {
			return fp
		}
	}
	return e.c.FPop(fpToFp(bits.S.W), fpSort(bits.S.W), bits)
}

func (e *Exec) fpToBits(x *Term) *Term {
	c := e.c
	// to_fp(b) -> b
	if x.Op == OFP && len(x.Args) == 1 && x.Args[0].S.K == KBV && x.Name == fpToFp(x.S.W) {
		return x.Args[0]
	}
	if r, ok := e.fpBits[x]; ok {
		return r
	}
	r := c.Fresh("fpbits", BV(x.S.W))
	e.axioms = append(e.axioms, c.Eq(c.FPop(fpToFp(x.S.W), x.S, r), x))
	e.fpBits[x] = r
	e.fpOf[r] = x
	return r
}

func (e *Exec) fpNeg(x *Term, T types.Type) *Term {
	return e.c.FPop("fp.neg", x.S, x)
}

func (e *Exec) fpBin(op token.Token, x, y *Term, T types.Type) *Term {
	c := e.c
	switch op {
	case token.ADD:
		return c.FPop("fp.add RNE", x.S, x, y)
	case token.SUB:
		return c.FPop("fp.sub RNE", x.S, x, y)
	case token.MUL:
		return c.FPop("fp.mul RNE", x.S, x, y)
	case token.QUO:
		return c.FPop("fp.div RNE", x.S, x, y)
	case token.EQL:
		return c.FPop("fp.eq", Bool, x, y)
	case token.NEQ:
		return c.Not(c.FPop("fp.eq", Bool, x, y))
	case token.LSS:
		return c.FPop("fp.lt", Bool, x, y)
	case token.LEQ:
		return c.FPop("fp.leq", Bool, x, y)
	case token.GTR:
		return c.FPop("fp.gt", Bool, x, y)
	case token.GEQ:
		return c.FPop("fp.geq", Bool, x, y)
	}
	e.fail("float operator %v", op)
	return nil
}

func floatWidth(T types.Type) int {
	if b, ok := T.Underlying().(*types.Basic); ok && b.Kind() == types.Float32 {
		return 32
	}
	return 64
}

// fpConvert implements Go conversions where at least one side is a float type.
func (e *Exec) fpConvert(st *State, x *Term, S, D types.Type) *Term {
	c := e.c
	switch {
	case isFloat(S) && isFloat(D):
		dw := floatWidth(D)
		if x.S.W == dw {
			return x
		}
		return c.FPop(fpToFp(dw)+" RNE", fpSort(dw), x)
	case isInteger(S) && isFloat(D):
		dw := floatWidth(D)
		if isSigned(S) {
			return c.FPop(fpToFp(dw)+" RNE", fpSort(dw), x)
		}
		if dw == 32 {
			return c.FPop("(_ to_fp_unsigned 8 24) RNE", fpSort(dw), x)
		}
		return c.FPop("(_ to_fp_unsigned 11 53) RNE", fpSort(dw), x)
	case isFloat(S) && isInteger(D):
		// Go truncates toward zero; the result for out-of-range values is implementation
		// defined (and unspecified in SMT-LIB as well): nothing can be proved about it
		w := intWidth(D)
		e.assumed["float->int conversion of out-of-range values is implementation-defined (left unspecified)"] = true
		{
			// remembered for conformance runs, which sample only inputs on which the conversion
			// is defined: lo <= x < 2^k (not NaN)
			sw := intWidth(S)
			pow := func(k int) *Term {
				if sw == 32 {
					return e.fpFromBits(c.Const(32, uint64(127+k)<<23))
				}
				return e.fpFromBits(c.Const(64, uint64(1023+k)<<52))
			}
			neg := func(k int) *Term {
				if sw == 32 {
					return e.fpFromBits(c.Const(32, uint64(1)<<31|uint64(127+k)<<23))
				}
				return e.fpFromBits(c.Const(64, uint64(1)<<63|uint64(1023+k)<<52))
			}
			if isSigned(D) {
				e.convRange = append(e.convRange, c.And(c.FPop("fp.geq", Bool, x, neg(w-1)), c.FPop("fp.lt", Bool, x, pow(w-1))))
			} else {
				e.convRange = append(e.convRange, c.And(c.FPop("fp.gt", Bool, x, neg(0)), c.FPop("fp.lt", Bool, x, pow(w))))
			}
		}
		if isSigned(D) {
			return c.FPop(fmt.Sprintf("(_ fp.to_sbv %d) RTZ", w), BV(w), x)
		}
		return c.FPop(fmt.Sprintf("(_ fp.to_ubv %d) RTZ", w), BV(w), x)
	}
	e.fail("conversion %v -> %v", S, D)
	return nil
}

func (e *Exec) fpContractBin(env *cenv, op string, a, b cval) cval {
	c := e.c
	x, y := a.v[0], b.v[0]
	if x.S != y.S {
		env.errf("float operands of different width")
	}
	switch op {
	case "+":
		return cval{v: Val{c.FPop("fp.add RNE", x.S, x, y)}, T: a.T}
	case "-":
		return cval{v: Val{c.FPop("fp.sub RNE", x.S, x, y)}, T: a.T}
	case "*":
		return cval{v: Val{c.FPop("fp.mul RNE", x.S, x, y)}, T: a.T}
	case "/":
		return cval{v: Val{c.FPop("fp.div RNE", x.S, x, y)}, T: a.T}
	case "==":
		return cval{v: Val{c.FPop("fp.eq", Bool, x, y)}, T: tBool}
	case "!=":
		return cval{v: Val{c.Not(c.FPop("fp.eq", Bool, x, y))}, T: tBool}
	case "<":
		return cval{v: Val{c.FPop("fp.lt", Bool, x, y)}, T: tBool}
	case "<=":
		return cval{v: Val{c.FPop("fp.leq", Bool, x, y)}, T: tBool}
	case ">":
		return cval{v: Val{c.FPop("fp.gt", Bool, x, y)}, T: tBool}
	case ">=":
		return cval{v: Val{c.FPop("fp.geq", Bool, x, y)}, T: tBool}
	}
	env.errf("float operator %s", op)
	return cval{}
}

func (e *Exec) fpConstFromInt(k *big.Int, T types.Type) cval {
	f, _ := new(big.Float).SetInt(k).Float64()
	return e.fpConst(f, T)
}

func (e *Exec) fpConst(f float64, T types.Type) cval {
	if floatWidth(T) == 32 {
		return cval{v: Val{e.fpFromBits(e.c.Const(32, uint64(math.Float32bits(float32(f)))))}, T: T}
	}
	return cval{v: Val{e.fpFromBits(e.c.Const(64, math.Float64bits(f)))}, T: T}
}

func (e *Exec) fpIsNaN(x *Term, T types.Type) *Term {
	return e.c.FPop("fp.isNaN", Bool, x)
}

func (e *Exec) runeToString(fr *Frame, st *State, x *Term, S types.Type) Val {
	// string(byte(c)) / string(rune(c)) for c < 0x80: one byte
	c := e.c
	s2, a := e.alloc(*st, c.Const(64, 4), "runestr")
	b := e.ext(x, S, 8)
	s2.h[0] = e.store(s2.h[0], a, b)
	*st = s2
	// exact only for ASCII; otherwise the length is 2..4 and contents unconstrained
	if x.IsConst() && x.C < 0x80 {
		return Val{a, c.Const(64, 1)}
	}
	n := c.Fresh("runelen", BV(64))
	*st = st.assume(c.And(c.Ule(c.Const(64, 1), n), c.Ule(n, c.Const(64, 4))))
	return Val{a, n}
}

package main

// Floating point (DESIGN §2.3.5). Filled in by the DPT phase.

import (
	"go/token"
	"go/types"
	"math/big"
)

func (e *Exec) fpNeg(x *Term, T types.Type) *Term { e.fail("float op not supported yet"); return nil }
func (e *Exec) fpBin(op token.Token, x, y *Term, T types.Type) *Term {
	e.fail("float op not supported yet")
	return nil
}
func (e *Exec) fpConvert(st *State, x *Term, S, D types.Type) *Term {
	e.fail("float conversion not supported yet")
	return nil
}
func (e *Exec) fpContractBin(env *cenv, op string, a, b cval) cval {
	e.fail("float op not supported yet")
	return cval{}
}
func (e *Exec) fpConstFromInt(k *big.Int, T types.Type) cval {
	e.fail("float const not supported yet")
	return cval{}
}
func (e *Exec) fpIsNaN(x *Term, T types.Type) *Term { e.fail("float op not supported yet"); return nil }
func (e *Exec) runeToString(fr *Frame, st *State, x *Term, S types.Type) Val {
	// string(byte(c)) / string(rune(c)) for c < 0x80: one byte
	c := e.c
	s2, a := e.alloc(*st, c.Const(64, 4), "runestr")
	b := e.ext(x, S, 8)
	s2.h[0] = e.store(s2.h[0], a, b)
	*st = s2
	// exact only for ASCII; otherwise the length is 2..4 and contents unconstrained
	if x.IsConst() && x.C < 0x80 {
		return Val{a, c.Const(64, 1)}
	}
	n := c.Fresh("runelen", BV(64))
	*st = st.assume(c.And(c.Ule(c.Const(64, 1), n), c.Ule(n, c.Const(64, 4))))
	return Val{a, n}
}

package main

import "go/types"

// Layered typed heap: four arrays (8/16/32/64-bit cells) indexed by slot address.
// Reads are rewritten over the layers at generation time (read-over-write), so SMT only
// ever sees `select` on free base arrays.

type layerKind uint8

const (
	lBase       layerKind = iota // free array variable arr
	lStore                       // [addr] := val
	lCopy                        // [addr, addr+n) := src[srcBase ...]   (memmove semantics)
	lZero                        // [addr, addr+n) := 0
	lHavoc                       // [addr, addr+n) := arr[...]   (arr fresh)
	lHavocAbove                  // [addr, +inf) := arr[...]
)

type HeapLayer struct {
	prev    *HeapLayer
	kind    layerKind
	addr    *Term
	val     *Term
	n       *Term
	src     *HeapLayer
	srcBase *Term
	arr     *Term
	w       int
	depth   int
	seq     int    // lHavocAbove: region sequence number at the havoc point
	tid     uint32 // lHavocAbove: term-id watermark at the havoc point
}

type Region struct {
	base   *Term
	size   *Term
	fresh  bool // allocated during this execution (disjoint from everything registered earlier)
	seq    int
	global bool       // package-level variable or string constant (distinct objects)
	T      types.Type // allocation type of a local (Alloc); nil otherwise
	n      uint64
}

// addrRoot finds the base symbol of an address in base+offset normal form.
func addrRoot(t *Term) *Term {
	for t.Op == OAdd {
		t = t.Args[0]
	}
	return t
}

func (e *Exec) distinctRoots(a, b *Term) bool {
	ra, rb := addrRoot(a), addrRoot(b)
	if ra == rb {
		return false
	}
	ga, oka := e.regions[ra]
	gb, okb := e.regions[rb]
	// a pointer value read from the heap as it was on entry denotes an object that existed
	// on entry: it cannot point into memory allocated since
	if oka && ga.fresh && e.fromInitialHeap(rb) || okb && gb.fresh && e.fromInitialHeap(ra) {
		return true
	}
	if !oka || !okb {
		return false
	}
	if ga.global && gb.global {
		return true
	}
	return ga.fresh || gb.fresh
}

// neverEqual: syntactic proof that two addresses differ.
func (e *Exec) neverEqual(a, b *Term) bool {
	if a == b {
		return false
	}
	ab, ac := splitAdd(a)
	bb, bc := splitAdd(b)
	if ab == bb {
		return ac != bc
	}
	return e.distinctRoots(a, b)
}

func (e *Exec) inRange(a, base, n *Term) *Term {
	c := e.c
	if e.distinctRoots(a, base) {
		return c.False
	}
	return c.Ult(c.Sub(a, base), n)
}

func (e *Exec) read(h *HeapLayer, a *Term) *Term {
	c := e.c
	// iterative descent collecting conditional layers
	type pend struct {
		cond *Term
		val  *Term
	}
	var stack []pend
	var bottom *Term
	for {
		switch h.kind {
		case lBase:
			bottom = c.Select(h.arr, a)
		case lStore:
			if h.addr == a {
				bottom = h.val
			} else if !e.neverEqual(h.addr, a) {
				cond := c.Eq(h.addr, a)
				if cond.IsTrue() {
					bottom = h.val
				} else if !cond.IsFalse() {
					stack = append(stack, pend{cond, h.val})
				}
			}
		case lZero:
			cond := e.inRange(a, h.addr, h.n)
			if cond.IsTrue() {
				bottom = c.Const(h.w, 0)
			} else if !cond.IsFalse() {
				stack = append(stack, pend{cond, c.Const(h.w, 0)})
			}
		case lCopy:
			cond := e.inRange(a, h.addr, h.n)
			if !cond.IsFalse() {
				v := e.read(h.src, c.Add(h.srcBase, c.Sub(a, h.addr)))
				if cond.IsTrue() {
					bottom = v
				} else {
					stack = append(stack, pend{cond, v})
				}
			}
		case lHavoc:
			cond := e.inRange(a, h.addr, h.n)
			if !cond.IsFalse() {
				v := c.Select(h.arr, a)
				if cond.IsTrue() {
					bottom = v
				} else {
					stack = append(stack, pend{cond, v})
				}
			}
		case lHavocAbove:
			var cond *Term
			ra := addrRoot(a)
			if g, ok := e.regions[ra]; ok && g.seq < h.seq {
				// region registered before the havoc point lies below it
				cond = c.False
			} else if a.id < h.tid {
				// an address that was already in hand before the havoc point denotes an object
				// that existed then (Go memory safety), i.e. one below the old frontier
				cond = c.False
			} else {
				cond = c.Ule(h.addr, a)
			}
			if !cond.IsFalse() {
				v := c.Select(h.arr, a)
				if cond.IsTrue() {
					bottom = v
				} else {
					stack = append(stack, pend{cond, v})
				}
			}
		}
		if bottom != nil {
			break
		}
		h = h.prev
	}
	r := bottom
	for i := len(stack) - 1; i >= 0; i-- {
		r = c.Ite(stack[i].cond, stack[i].val, r)
	}
	return r
}

func (h *HeapLayer) push(l HeapLayer) *HeapLayer {
	l.prev = h
	l.w = h.w
	l.depth = h.depth + 1
	return &l
}

func (e *Exec) store(h *HeapLayer, a, v *Term) *HeapLayer {
	if v.S.W != h.w {
		panic("heap store width mismatch")
	}
	// overwrite of the immediately preceding store to the same address
	if h.kind == lStore && h.addr == a {
		return h.prev.push(HeapLayer{kind: lStore, addr: a, val: v})
	}
	return h.push(HeapLayer{kind: lStore, addr: a, val: v})
}

package main

import (
	"fmt"
	"go/constant"
	"go/token"
	"go/types"
	"math"

	"golang.org/x/tools/go/ssa"
)

func (e *Exec) constVal(k *ssa.Const) Val {
	c := e.c
	T := k.Type()
	if k.Value == nil {
		// zero value of T
		return e.zeroVal(T)
	}
	switch t := T.Underlying().(type) {
	case *types.Basic:
		switch {
		case t.Info()&types.IsBoolean != 0:
			return Val{c.BoolC(constant.BoolVal(k.Value))}
		case t.Info()&types.IsInteger != 0:
			w := intWidth(T)
			if i, ok := constant.Int64Val(constant.ToInt(k.Value)); ok {
				return Val{c.Const(w, uint64(i))}
			}
			u, _ := constant.Uint64Val(constant.ToInt(k.Value))
			return Val{c.Const(w, u)}
		case t.Info()&types.IsFloat != 0:
			f, _ := constant.Float64Val(k.Value)
			if t.Kind() == types.Float32 {
				f32, _ := constant.Float32Val(k.Value)
				return Val{e.fpFromBits(c.Const(32, uint64(math.Float32bits(f32))))}
			}
			return Val{e.fpFromBits(c.Const(64, math.Float64bits(f)))}
		case t.Info()&types.IsString != 0:
			return e.strConst(constant.StringVal(k.Value))
		}
	}
	e.fail("constant of type %v", T)
	return nil
}

func (e *Exec) zeroVal(T types.Type) Val {
	sl := e.P.lay.slots(T)
	out := make(Val, len(sl))
	for i, k := range sl {
		switch k {
		case SBool:
			out[i] = e.c.False
		case SF32, SF64:
			out[i] = e.fpFromBits(e.c.Const(k.width(), 0))
		default:
			out[i] = e.c.Const(int(k), 0)
		}
	}
	return out
}

// ext widens/narrows an integer term from type S to width w according to S's signedness.
func (e *Exec) ext(t *Term, S types.Type, w int) *Term {
	if t.S.W == w {
		return t
	}
	if t.S.W > w {
		return e.c.Extract(w-1, 0, t)
	}
	if isSigned(S) {
		return e.c.Sext(t, w)
	}
	return e.c.Zext(t, w)
}

func (e *Exec) elemSlots(T types.Type) uint64 {
	n := uint64(e.P.lay.nslots(T))
	return n
}

// step executes a non-control, non-call instruction. A non-nil result means the
// instruction forked; the caller assigns each outcome's ret to the instruction's register.
func (e *Exec) step(fr *Frame, st *State, instr ssa.Instruction) []Outcome {
	c := e.c
	switch in := instr.(type) {
	case *ssa.DebugRef:
		return nil
	case *ssa.Alloc:
		T := in.Type().(*types.Pointer).Elem()
		n := e.elemSlots(T)
		s2, a := e.alloc(*st, c.Const(64, n), in.Comment)
		e.regions[a].T = T
		e.regions[a].n = n
		e.locals = append(e.locals, e.regions[a])
		s2 = e.zeroRange(s2, T, a, c.Const(64, 1))
		*st = s2
		fr.regs[in] = Val{a}
	case *ssa.Store:
		a := e.operand(fr, st, in.Addr)[0]
		v := e.operand(fr, st, in.Val)
		*st = e.nilCheck(*st, fr, a, in.Pos(), in.Addr)
		T := in.Addr.Type().Underlying().(*types.Pointer).Elem()
		*st = e.storeVal(*st, a, T, v)
	case *ssa.UnOp:
		x := e.operand(fr, st, in.X)
		switch in.Op {
		case token.MUL:
			*st = e.nilCheck(*st, fr, x[0], in.Pos(), in.X)
			T := in.X.Type().Underlying().(*types.Pointer).Elem()
			s2, v := e.load(*st, x[0], T)
			*st = s2
			fr.regs[in] = v
		case token.NOT:
			fr.regs[in] = Val{c.Not(x[0])}
		case token.SUB:
			if isFloat(in.Type()) {
				fr.regs[in] = Val{e.fpNeg(x[0], in.Type())}
			} else {
				fr.regs[in] = Val{c.Neg(x[0])}
			}
		case token.XOR:
			fr.regs[in] = Val{c.BvNot(x[0])}
		case token.ARROW:
			return e.chanRecv(fr, *st, in)
		default:
			e.fail("unop %v", in.Op)
		}
	case *ssa.BinOp:
		x := e.operand(fr, st, in.X)
		y := e.operand(fr, st, in.Y)
		fr.regs[in] = e.binop(fr, st, in, x, y)
	case *ssa.FieldAddr:
		p := e.operand(fr, st, in.X)[0]
		*st = e.nilCheck(*st, fr, p, in.Pos(), in.X)
		stt := in.X.Type().Underlying().(*types.Pointer).Elem().Underlying().(*types.Struct)
		off := e.P.lay.fieldOffset(stt, in.Field)
		fr.regs[in] = Val{c.Add(p, c.Const(64, uint64(off)))}
	case *ssa.Field:
		x := e.operand(fr, st, in.X)
		stt := in.X.Type().Underlying().(*types.Struct)
		off := e.P.lay.fieldOffset(stt, in.Field)
		n := e.P.lay.nslots(stt.Field(in.Field).Type())
		fr.regs[in] = x[off : off+n]
	case *ssa.IndexAddr:
		x := e.operand(fr, st, in.X)
		idx := e.ext(e.operand(fr, st, in.Index)[0], in.Index.Type(), 64)
		var base, ln *Term
		var ET types.Type
		switch t := in.X.Type().Underlying().(type) {
		case *types.Slice:
			base, ln, ET = x[0], x[1], t.Elem()
		case *types.Pointer:
			at := t.Elem().Underlying().(*types.Array)
			*st = e.nilCheck(*st, fr, x[0], in.Pos(), in.X)
			base, ln, ET = x[0], c.Const(64, uint64(at.Len())), at.Elem()
		default:
			e.fail("IndexAddr on %v", in.X.Type())
		}
		*st = e.oblige(*st, fr.fn, "nopanic.index", "", in.Pos(), c.Ult(idx, ln))
		fr.regs[in] = Val{c.Add(base, c.Mul(idx, c.Const(64, e.elemSlots(ET))))}
	case *ssa.Index:
		x := e.operand(fr, st, in.X)
		idx := e.ext(e.operand(fr, st, in.Index)[0], in.Index.Type(), 64)
		switch t := in.X.Type().Underlying().(type) {
		case *types.Array:
			es := e.P.lay.nslots(t.Elem())
			*st = e.oblige(*st, fr.fn, "nopanic.index", "", in.Pos(), c.Ult(idx, c.Const(64, uint64(t.Len()))))
			if idx.IsConst() {
				o := int(idx.C) * es
				fr.regs[in] = x[o : o+es]
			} else {
				out := make(Val, es)
				for s := 0; s < es; s++ {
					r := x[s]
					for k := int(t.Len()) - 1; k >= 1; k-- {
						r = c.Ite(c.Eq(idx, c.Const(64, uint64(k))), x[k*es+s], r)
					}
					out[s] = r
				}
				fr.regs[in] = out
			}
		case *types.Basic: // string index (go1.21+ emits Index for strings? kept for safety)
			*st = e.oblige(*st, fr.fn, "nopanic.index", "", in.Pos(), c.Ult(idx, x[1]))
			fr.regs[in] = Val{e.read(st.h[0], c.Add(x[0], idx))}
		default:
			e.fail("Index on %v", in.X.Type())
		}
	case *ssa.Lookup:
		x := e.operand(fr, st, in.X)
		if isString(in.X.Type()) {
			idx := e.ext(e.operand(fr, st, in.Index)[0], in.Index.Type(), 64)
			*st = e.oblige(*st, fr.fn, "nopanic.index", "", in.Pos(), c.Ult(idx, x[1]))
			fr.regs[in] = Val{e.read(st.h[0], c.Add(x[0], idx))}
			return nil
		}
		return e.mapLookup(fr, *st, in)
	case *ssa.Slice:
		fr.regs[in] = e.sliceOp(fr, st, in)
	case *ssa.MakeSlice:
		T := in.Type().Underlying().(*types.Slice)
		ln := e.ext(e.operand(fr, st, in.Len)[0], in.Len.Type(), 64)
		cp := e.ext(e.operand(fr, st, in.Cap)[0], in.Cap.Type(), 64)
		*st = e.oblige(*st, fr.fn, "nopanic.make", "", in.Pos(), c.And(c.Ule(ln, cp), c.Ule(cp, c.Const(64, 1<<40))))
		es := e.elemSlots(T.Elem())
		s2, a := e.alloc(*st, c.Mul(cp, c.Const(64, es)), "make")
		s2 = e.zeroRange(s2, T.Elem(), a, cp)
		*st = s2
		fr.regs[in] = Val{a, ln, cp}
	case *ssa.Convert:
		fr.regs[in] = e.convert(fr, st, in)
	case *ssa.ChangeType:
		fr.regs[in] = e.operand(fr, st, in.X)
	case *ssa.ChangeInterface:
		fr.regs[in] = e.operand(fr, st, in.X)
	case *ssa.MakeInterface:
		x := e.operand(fr, st, in.X)
		fr.regs[in] = e.makeIface(st, in.X.Type(), x)
	case *ssa.TypeAssert:
		fr.regs[in] = e.typeAssert(fr, st, in)
	case *ssa.Extract:
		t := e.operand(fr, st, in.Tuple)
		tup := in.Tuple.Type().(*types.Tuple)
		off := 0
		for i := 0; i < in.Index; i++ {
			off += e.P.lay.nslots(tup.At(i).Type())
		}
		n := e.P.lay.nslots(tup.At(in.Index).Type())
		fr.regs[in] = t[off : off+n]
	case *ssa.MakeClosure:
		fn := in.Fn.(*ssa.Function)
		s2, a := e.alloc(*st, c.Const(64, uint64(1+len(in.Bindings))), "closure")
		s2.h[3] = e.store(s2.h[3], a, e.funcValue(fn))
		// bindings are kept out-of-band: closure objects are immutable
		var bs []Val
		for _, b := range in.Bindings {
			bs = append(bs, e.operand(fr, st, b))
		}
		e.closures[a] = &closure{fn: fn, binds: bs}
		*st = s2
		fr.regs[in] = Val{a}
	case *ssa.MakeChan:
		fr.regs[in] = e.makeChan(fr, st, in)
	case *ssa.MakeMap:
		fr.regs[in] = e.makeMap(fr, st, in)
	case *ssa.MapUpdate:
		e.mapUpdate(fr, st, in)
	case *ssa.Send:
		return e.chanSend(fr, *st, in)
	case *ssa.Select:
		return e.selectOp(fr, *st, in)
	case *ssa.Range:
		fr.regs[in] = e.rangeOp(fr, st, in)
	case *ssa.Next:
		return e.nextOp(fr, *st, in)
	default:
		e.fail("unsupported instruction %T in %s", instr, fr.fn)
	}
	return nil
}

type closure struct {
	fn    *ssa.Function
	binds []Val
}

func (e *Exec) nilCheck(st State, fr *Frame, p *Term, pos token.Pos, v ssa.Value) State {
	c := e.c
	// addresses of allocations, globals and fields thereof are never nil
	r := addrRoot(p)
	if g, ok := e.regions[r]; ok && (g.fresh || r.Op == OVar && (len(r.Name) > 2 && (r.Name[:2] == "G." || r.Name[:2] == "S."))) {
		return st
	}
	switch v.(type) {
	case *ssa.Alloc, *ssa.Global:
		return st
	}
	return e.oblige(st, fr.fn, "nopanic.nil", "", pos, c.Ne(p, c.Const(64, 0)))
}

func (e *Exec) makeIface(st *State, T types.Type, x Val) Val {
	c := e.c
	if _, isI := T.Underlying().(*types.Interface); isI {
		return x
	}
	tag := c.Const(64, e.P.tag(T))
	switch T.Underlying().(type) {
	case *types.Pointer, *types.Chan, *types.Map, *types.Signature:
		return Val{tag, x[0]}
	}
	n := e.elemSlots(T)
	s2, a := e.alloc(*st, c.Const(64, n), "box")
	s2 = e.storeVal(s2, a, T, x)
	*st = s2
	return Val{tag, a}
}

func pointerShaped(T types.Type) bool {
	switch T.Underlying().(type) {
	case *types.Pointer, *types.Chan, *types.Map, *types.Signature:
		return true
	}
	return false
}

// tagIn builds the condition "tag denotes a type implementing iface".
func (e *Exec) tagImplements(tag *Term, iface *types.Interface) *Term {
	c := e.c
	if tag.IsConst() {
		if tag.C == 0 || e.P.typeOfTag(tag.C) == nil {
			return c.False
		}
		return c.BoolC(types.Implements(e.P.typeOfTag(tag.C), iface))
	}
	var alts []*Term
	for _, I := range e.P.implementers(iface) {
		alts = append(alts, c.Eq(tag, c.Const(64, e.P.tag(I))))
	}
	return c.Or(alts...)
}

func (e *Exec) typeAssert(fr *Frame, st *State, in *ssa.TypeAssert) Val {
	c := e.c
	x := e.operand(fr, st, in.X)
	tag, word := e.peelIte(*st, x[0]), e.peelIte(*st, x[1])
	var ok *Term
	var val Val
	alts := map[uint64]bool(nil)
	if !tag.IsConst() {
		alts = st.tagAlternatives(tag)
	}
	if it, isI := in.AssertedType.Underlying().(*types.Interface); isI {
		if it.NumMethods() == 0 {
			ok = c.Ne(tag, c.Const(64, 0))
		} else if alts != nil {
			var ds []*Term
			all := true
			for t := range alts {
				T := e.P.typeOfTag(t)
				if T != nil && types.Implements(T, it) {
					ds = append(ds, c.Eq(tag, c.Const(64, t)))
				} else {
					all = false
				}
			}
			if all {
				ok = c.True
			} else {
				ok = c.Or(ds...)
			}
		} else {
			ok = e.tagImplements(tag, it)
		}
		val = Val{c.Ite(ok, tag, c.Const(64, 0)), c.Ite(ok, word, c.Const(64, 0))}
	} else {
		T := in.AssertedType
		ok = c.Eq(tag, c.Const(64, e.P.tag(T)))
		if alts != nil && !alts[e.P.tag(T)] {
			ok = c.False
		}
		if pointerShaped(T) {
			val = Val{c.Ite(ok, word, c.Const(64, 0))}
		} else {
			// boxed value: load it (only meaningful when ok)
			if ok.IsFalse() {
				val = e.zeroVal(T)
			} else {
				v := e.loadFrom(st.h, word, T)
				z := e.zeroVal(T)
				val = make(Val, len(v))
				for i := range v {
					val[i] = c.Ite(ok, v[i], z[i])
				}
			}
		}
	}
	if in.CommaOk {
		return append(append(Val{}, val...), ok)
	}
	*st = e.oblige(*st, fr.fn, "nopanic.assert", "", in.Pos(), ok)
	return val
}

func (e *Exec) sliceOp(fr *Frame, st *State, in *ssa.Slice) Val {
	c := e.c
	x := e.operand(fr, st, in.X)
	var base, ln, cp *Term
	var es uint64 = 1
	isStr := false
	switch t := in.X.Type().Underlying().(type) {
	case *types.Slice:
		base, ln, cp = x[0], x[1], x[2]
		es = e.elemSlots(t.Elem())
	case *types.Basic:
		base, ln, cp = x[0], x[1], x[1]
		isStr = true
	case *types.Pointer:
		at := t.Elem().Underlying().(*types.Array)
		*st = e.nilCheck(*st, fr, x[0], in.Pos(), in.X)
		base, ln, cp = x[0], c.Const(64, uint64(at.Len())), c.Const(64, uint64(at.Len()))
		es = e.elemSlots(at.Elem())
	default:
		e.fail("Slice on %v", in.X.Type())
	}
	lo := c.Const(64, 0)
	hi := ln
	mx := cp
	if in.Low != nil {
		lo = e.ext(e.operand(fr, st, in.Low)[0], in.Low.Type(), 64)
	}
	if in.High != nil {
		hi = e.ext(e.operand(fr, st, in.High)[0], in.High.Type(), 64)
	}
	if in.Max != nil {
		mx = e.ext(e.operand(fr, st, in.Max)[0], in.Max.Type(), 64)
	}
	goal := c.And(c.Ule(lo, hi), c.Ule(hi, mx), c.Ule(mx, cp))
	*st = e.oblige(*st, fr.fn, "nopanic.slice", "", in.Pos(), goal)
	if fr.confine != nil && fr.confine[addrRoot(base)] && in.High != nil {
		*st = e.oblige(*st, fr.fn, "confine", "", in.Pos(), c.Ule(hi, ln))
	}
	nb := c.Add(base, c.Mul(lo, c.Const(64, es)))
	if isStr {
		return Val{nb, c.Sub(hi, lo)}
	}
	return Val{nb, c.Sub(hi, lo), c.Sub(mx, lo)}
}

func (e *Exec) shiftCount(y *Term, YT types.Type, w int) *Term {
	c := e.c
	if y.S.W == w {
		return y
	}
	if y.S.W < w {
		return c.Zext(y, w)
	}
	return c.Ite(c.Ult(y, c.Const(y.S.W, uint64(w))), c.Extract(w-1, 0, y), c.Const(w, uint64(w)))
}

func (e *Exec) binop(fr *Frame, st *State, in *ssa.BinOp, x, y Val) Val {
	c := e.c
	XT := in.X.Type()
	switch ut := XT.Underlying().(type) {
	case *types.Basic:
		switch {
		case ut.Info()&types.IsInteger != 0:
			a, b := x[0], y[0]
			sg := isSigned(XT)
			switch in.Op {
			case token.ADD:
				return Val{c.Add(a, b)}
			case token.SUB:
				return Val{c.Sub(a, b)}
			case token.MUL:
				return Val{c.Mul(a, b)}
			case token.QUO, token.REM:
				*st = e.oblige(*st, fr.fn, "nopanic.div", "", in.Pos(), c.Ne(b, c.Const(b.S.W, 0)))
				if in.Op == token.QUO {
					if sg {
						return Val{c.Sdiv(a, b)}
					}
					return Val{c.Udiv(a, b)}
				}
				if sg {
					return Val{c.Srem(a, b)}
				}
				return Val{c.Urem(a, b)}
			case token.AND:
				return Val{c.BvAnd(a, b)}
			case token.OR:
				return Val{c.BvOr(a, b)}
			case token.XOR:
				return Val{c.BvXor(a, b)}
			case token.AND_NOT:
				return Val{c.BvAnd(a, c.BvNot(b))}
			case token.SHL, token.SHR:
				if isSigned(in.Y.Type()) {
					*st = e.oblige(*st, fr.fn, "nopanic.shift", "", in.Pos(), c.Sge(b, c.Const(b.S.W, 0)))
				}
				cnt := e.shiftCount(b, in.Y.Type(), a.S.W)
				if in.Op == token.SHL {
					return Val{c.Shl(a, cnt)}
				}
				if sg {
					return Val{c.Ashr(a, cnt)}
				}
				return Val{c.Lshr(a, cnt)}
			case token.EQL:
				return Val{c.Eq(a, b)}
			case token.NEQ:
				return Val{c.Ne(a, b)}
			case token.LSS:
				if sg {
					return Val{c.Slt(a, b)}
				}
				return Val{c.Ult(a, b)}
			case token.LEQ:
				if sg {
					return Val{c.Sle(a, b)}
				}
				return Val{c.Ule(a, b)}
			case token.GTR:
				if sg {
					return Val{c.Sgt(a, b)}
				}
				return Val{c.Ugt(a, b)}
			case token.GEQ:
				if sg {
					return Val{c.Sge(a, b)}
				}
				return Val{c.Uge(a, b)}
			}
		case ut.Info()&types.IsBoolean != 0:
			switch in.Op {
			case token.EQL:
				return Val{c.Eq(x[0], y[0])}
			case token.NEQ:
				return Val{c.Ne(x[0], y[0])}
			}
		case ut.Info()&types.IsFloat != 0:
			return Val{e.fpBin(in.Op, x[0], y[0], XT)}
		case ut.Info()&types.IsString != 0:
			return e.stringBin(fr, st, in, x, y)
		case ut.Kind() == types.UnsafePointer || ut.Kind() == types.UntypedNil:
			if in.Op == token.EQL {
				return Val{c.Eq(x[0], y[0])}
			}
			return Val{c.Ne(x[0], y[0])}
		}
	case *types.Pointer, *types.Chan, *types.Map, *types.Signature:
		if in.Op == token.EQL {
			return Val{c.Eq(x[0], y[0])}
		}
		if in.Op == token.NEQ {
			return Val{c.Ne(x[0], y[0])}
		}
	case *types.Slice:
		// comparison with nil only
		eq := c.Eq(x[0], y[0])
		if in.Op == token.EQL {
			return Val{eq}
		}
		return Val{c.Not(eq)}
	case *types.Interface:
		eq := e.ifaceEq(st, x, y)
		if in.Op == token.EQL {
			return Val{eq}
		}
		return Val{c.Not(eq)}
	case *types.Struct, *types.Array:
		var cs []*Term
		for i := range x {
			cs = append(cs, c.Eq(x[i], y[i]))
		}
		eq := c.And(cs...)
		if in.Op == token.EQL {
			return Val{eq}
		}
		return Val{c.Not(eq)}
	}
	e.fail("binop %v on %v", in.Op, XT)
	return nil
}

func (e *Exec) ifaceEq(st *State, x, y Val) *Term {
	c := e.c
	// comparison with the nil interface: only the type word matters
	if y[0].IsConst() && y[0].C == 0 {
		return c.Eq(x[0], y[0])
	}
	if x[0].IsConst() && x[0].C == 0 {
		return c.Eq(x[0], y[0])
	}
	// Values boxed by MakeInterface are compared by content when both tags are the same
	// known non-pointer type; otherwise by (tag, word).
	if x[0].IsConst() && y[0].IsConst() && x[0].C == y[0].C && x[0].C != 0 && e.P.typeOfTag(x[0].C) != nil {
		T := e.P.typeOfTag(x[0].C)
		if !pointerShaped(T) {
			a := e.loadFrom(st.h, x[1], T)
			b := e.loadFrom(st.h, y[1], T)
			var cs []*Term
			for i := range a {
				cs = append(cs, c.Eq(a[i], b[i]))
			}
			return c.And(cs...)
		}
	}
	return c.And(c.Eq(x[0], y[0]), c.Eq(x[1], y[1]))
}

func (e *Exec) stringBin(fr *Frame, st *State, in *ssa.BinOp, x, y Val) Val {
	c := e.c
	switch in.Op {
	case token.EQL, token.NEQ:
		var eq *Term
		// against a constant: length and bytes
		var kv, ov Val
		var ks string
		found := false
		for s, v := range e.strs {
			if len(v) == 2 && v[0] == y[0] && v[1] == y[1] {
				kv, ov, ks, found = v, x, s, true
			} else if v[0] == x[0] && v[1] == x[1] {
				kv, ov, ks, found = v, y, s, true
			}
		}
		_ = kv
		if found && len(ks) <= 64 {
			cs := []*Term{c.Eq(ov[1], c.Const(64, uint64(len(ks))))}
			for i := 0; i < len(ks); i++ {
				cs = append(cs, c.Eq(e.read(st.h[0], c.Add(ov[0], c.Const(64, uint64(i)))), c.Const(8, uint64(ks[i]))))
			}
			eq = c.And(cs...)
		} else {
			// general: equal length and all bytes equal
			k := c.Bound("k", BV(64))
			body := c.Imp(c.Ult(k, x[1]), c.Eq(e.read(st.h[0], c.Add(x[0], k)), e.read(st.h[0], c.Add(y[0], k))))
			eq = c.And(c.Eq(x[1], y[1]), c.Forall(k, body))
		}
		if in.Op == token.EQL {
			return Val{eq}
		}
		return Val{c.Not(eq)}
	case token.ADD:
		n := c.Add(x[1], y[1])
		s2, a := e.alloc(*st, n, "strcat")
		h := s2.h[0]
		h = h.push(HeapLayer{kind: lCopy, addr: a, n: x[1], src: st.h[0], srcBase: x[0]})
		h = h.push(HeapLayer{kind: lCopy, addr: c.Add(a, x[1]), n: y[1], src: st.h[0], srcBase: y[0]})
		s2.h[0] = h
		*st = s2
		return Val{a, n}
	}
	e.fail("string binop %v", in.Op)
	return nil
}

func (e *Exec) convert(fr *Frame, st *State, in *ssa.Convert) Val {
	_ = e.c
	x := e.operand(fr, st, in.X)
	S, D := in.X.Type(), in.Type()
	su, du := S.Underlying(), D.Underlying()
	sb, sok := su.(*types.Basic)
	db, dok := du.(*types.Basic)
	switch {
	case sok && dok && sb.Info()&types.IsInteger != 0 && db.Info()&types.IsInteger != 0:
		return Val{e.ext(x[0], S, intWidth(D))}
	case sok && dok && (sb.Info()&types.IsFloat != 0 || db.Info()&types.IsFloat != 0) &&
		(sb.Info()&(types.IsInteger|types.IsFloat) != 0) && (db.Info()&(types.IsInteger|types.IsFloat) != 0):
		return Val{e.fpConvert(st, x[0], S, D)}
	case sok && sb.Info()&types.IsString != 0:
		if sl, ok := du.(*types.Slice); ok {
			if eb, ok := sl.Elem().Underlying().(*types.Basic); ok && eb.Kind() == types.Uint8 {
				// []byte(s): fresh copy
				s2, a := e.alloc(*st, x[1], "bytes")
				s2.h[0] = s2.h[0].push(HeapLayer{kind: lCopy, addr: a, n: x[1], src: st.h[0], srcBase: x[0]})
				*st = s2
				return Val{a, x[1], x[1]}
			}
			return e.stringToRunes(fr, st, x)
		}
	case dok && db.Info()&types.IsString != 0:
		if sl, ok := su.(*types.Slice); ok {
			if eb, ok := sl.Elem().Underlying().(*types.Basic); ok && eb.Kind() == types.Uint8 {
				s2, a := e.alloc(*st, x[1], "string")
				s2.h[0] = s2.h[0].push(HeapLayer{kind: lCopy, addr: a, n: x[1], src: st.h[0], srcBase: x[0]})
				*st = s2
				return Val{a, x[1]}
			}
			return e.runesToString(fr, st, x)
		}
		if sok && sb.Info()&types.IsInteger != 0 {
			return e.runeToString(fr, st, x[0], S)
		}
	case sok && sb.Kind() == types.UnsafePointer || dok && db.Kind() == types.UnsafePointer:
		e.fail("unsafe conversion")
	}
	if _, ok := su.(*types.Pointer); ok {
		if _, ok := du.(*types.Pointer); ok {
			return x
		}
	}
	e.fail("convert %v -> %v", S, D)
	return nil
}

func (e *Exec) describe(v ssa.Value) string {
	return fmt.Sprintf("%s:%v", v.Name(), v.Type())
}

package main

// Slot layout of Go types in the flat typed heap (DESIGN §2.3.2).

import (
	"fmt"
	"go/types"
	"sync"
)

// SlotKind is the register/heap width of one slot. 1 = bool (kept as SMT Bool in
// registers, stored in H8), 8/16/32/64 = bit-vector of that width.
type SlotKind uint8

const (
	SBool SlotKind = 1
	S8    SlotKind = 8
	S16   SlotKind = 16
	S32   SlotKind = 32
	S64   SlotKind = 64
	SF32  SlotKind = 33 // float32: FP-sorted in registers, 32-bit cell in H32
	SF64  SlotKind = 65 // float64: FP-sorted in registers, 64-bit cell in H64
)

func (k SlotKind) heapIdx() int {
	switch k {
	case SBool, S8:
		return 0
	case S16:
		return 1
	case S32, SF32:
		return 2
	}
	return 3
}

func (k SlotKind) width() int {
	switch k {
	case SBool:
		return 8
	case SF32:
		return 32
	case SF64:
		return 64
	}
	return int(k)
}

var heapWidths = [4]int{8, 16, 32, 64}

type layoutCache struct {
	mu sync.Mutex
	m  map[types.Type][]SlotKind
}

func newLayout() *layoutCache { return &layoutCache{m: map[types.Type][]SlotKind{}} }

func (l *layoutCache) slots(T types.Type) []SlotKind {
	l.mu.Lock()
	s, ok := l.m[T]
	l.mu.Unlock()
	if ok {
		return s
	}
	var out []SlotKind
	switch t := T.Underlying().(type) {
	case *types.Basic:
		switch t.Kind() {
		case types.Bool, types.UntypedBool:
			out = []SlotKind{SBool}
		case types.Int8, types.Uint8:
			out = []SlotKind{S8}
		case types.Int16, types.Uint16:
			out = []SlotKind{S16}
		case types.Int32, types.Uint32, types.UntypedRune:
			out = []SlotKind{S32}
		case types.Float32:
			out = []SlotKind{SF32}
		case types.Float64, types.UntypedFloat:
			out = []SlotKind{SF64}
		case types.Int, types.Uint, types.Int64, types.Uint64, types.Uintptr,
			types.UnsafePointer, types.UntypedInt:
			out = []SlotKind{S64}
		case types.String, types.UntypedString:
			out = []SlotKind{S64, S64}
		case types.UntypedNil:
			out = []SlotKind{S64}
		default:
			panic(fmt.Sprintf("layout: basic kind %v", t))
		}
	case *types.Pointer, *types.Chan, *types.Map, *types.Signature:
		out = []SlotKind{S64}
	case *types.Slice:
		out = []SlotKind{S64, S64, S64}
	case *types.Interface:
		out = []SlotKind{S64, S64}
	case *types.Struct:
		for i := 0; i < t.NumFields(); i++ {
			out = append(out, l.slots(t.Field(i).Type())...)
		}
	case *types.Array:
		e := l.slots(t.Elem())
		for i := int64(0); i < t.Len(); i++ {
			out = append(out, e...)
		}
	case *types.Tuple:
		for i := 0; i < t.Len(); i++ {
			out = append(out, l.slots(t.At(i).Type())...)
		}
	default:
		panic(fmt.Sprintf("layout: type %T %v", T, T))
	}
	l.mu.Lock()
	l.m[T] = out
	l.mu.Unlock()
	return out
}

func (l *layoutCache) nslots(T types.Type) int { return len(l.slots(T)) }

func (l *layoutCache) fieldOffset(st *types.Struct, idx int) int {
	off := 0
	for i := 0; i < idx; i++ {
		off += l.nslots(st.Field(i).Type())
	}
	return off
}

func isSigned(T types.Type) bool {
	b, ok := T.Underlying().(*types.Basic)
	return ok && b.Info()&types.IsInteger != 0 && b.Info()&types.IsUnsigned == 0
}

func isFloat(T types.Type) bool {
	b, ok := T.Underlying().(*types.Basic)
	return ok && b.Info()&types.IsFloat != 0
}

func isInteger(T types.Type) bool {
	b, ok := T.Underlying().(*types.Basic)
	return ok && b.Info()&types.IsInteger != 0
}

func isBoolean(T types.Type) bool {
	b, ok := T.Underlying().(*types.Basic)
	return ok && b.Info()&types.IsBoolean != 0
}

func isString(T types.Type) bool {
	b, ok := T.Underlying().(*types.Basic)
	return ok && b.Info()&types.IsString != 0
}

func intWidth(T types.Type) int {
	b := T.Underlying().(*types.Basic)
	switch b.Kind() {
	case types.Int8, types.Uint8:
		return 8
	case types.Int16, types.Uint16:
		return 16
	case types.Int32, types.Uint32, types.Float32, types.UntypedRune:
		return 32
	}
	return 64
}

// regSort is the SMT sort of a register holding a slot of kind k.
func regSort(k SlotKind) Sort {
	switch k {
	case SBool:
		return Bool
	case SF32:
		return Sort{KFP, 32}
	case SF64:
		return Sort{KFP, 64}
	}
	return BV(int(k))
}

package main

import (
	"fmt"
	"go/token"
	"go/types"
	"os"
	"regexp"
	"sort"
	"strings"
	"sync"

	"golang.org/x/tools/go/packages"
	"golang.org/x/tools/go/ssa"
	"golang.org/x/tools/go/ssa/ssautil"
)

const modPath = "github.com/vapourismo/knx-go"

type Program struct {
	constMaps map[*ssa.Global]*constMapInfo
	repo      string
	fset      *token.FileSet
	pkgs      []*packages.Package
	prog      *ssa.Program
	ssaPkgs   map[string]*ssa.Package // by short name: util, cemi, knxnet, dpt, knx
	lay       *layoutCache

	// dynamic type tags (interface words)
	tagOf   map[string]uint64 // types.Type string -> tag
	tagType []types.Type      // tag -> type (index 0 unused)

	contracts  *ContractSet
	funcs      map[string]*ssa.Function // ssa String() -> function (repo packages only)
	globalInit map[*ssa.Global][]uint64
}

func shortPkg(path string) string {
	if path == modPath+"/knx" {
		return "knx"
	}
	return strings.TrimPrefix(path, modPath+"/knx/")
}

func loadProgram(repo string, patterns ...string) (*Program, error) {
	if len(patterns) == 0 {
		patterns = []string{"./knx/..."}
	}
	fset := token.NewFileSet()
	cfg := &packages.Config{
		Mode:       packages.LoadAllSyntax,
		Dir:        repo,
		Fset:       fset,
		BuildFlags: []string{"-tags=verif"},
		Env: append(os.Environ(), "GOFLAGS=-mod=mod", "GOPROXY=off", "GOSUMDB=off",
			"GOTOOLCHAIN=local"),
	}
	pkgs, err := packages.Load(cfg, patterns...)
	if err != nil {
		return nil, err
	}
	var errs []string
	packages.Visit(pkgs, nil, func(p *packages.Package) {
		for _, e := range p.Errors {
			errs = append(errs, e.Error())
		}
	})
	if len(errs) > 0 {
		return nil, fmt.Errorf("load errors:\n%s", strings.Join(errs, "\n"))
	}
	prog, spkgs := ssautil.AllPackages(pkgs, ssa.InstantiateGenerics|ssa.GlobalDebug)
	prog.Build()
	P := &Program{repo: repo, fset: fset, pkgs: pkgs, prog: prog, ssaPkgs: map[string]*ssa.Package{},
		lay: newLayout(), tagOf: map[string]uint64{}, tagType: []types.Type{nil},
		funcs: map[string]*ssa.Function{}}
	for i, p := range pkgs {
		if spkgs[i] == nil {
			continue
		}
		P.ssaPkgs[shortPkg(p.PkgPath)] = spkgs[i]
	}
	for fn := range ssautil.AllFunctions(prog) {
		if fn.Pkg != nil && strings.HasPrefix(fn.Pkg.Pkg.Path(), modPath) {
			P.funcs[fn.String()] = fn
		}
	}
	return P, nil
}

func (P *Program) isRepoFunc(fn *ssa.Function) bool {
	if fn == nil {
		return false
	}
	pk := fn.Pkg
	if pk == nil && fn.Parent() != nil {
		pk = fn.Parent().Pkg
	}
	if pk == nil {
		// synthesized wrappers (promoted methods, bound methods) have no package; decide by origin
		if fn.Synthetic != "" && fn.Object() != nil && fn.Object().Pkg() != nil {
			return strings.HasPrefix(fn.Object().Pkg().Path(), modPath)
		}
		return false
	}
	return strings.HasPrefix(pk.Pkg.Path(), modPath)
}

// tag returns the dynamic type tag for T.
var tagMu sync.Mutex
var aliasRe = regexp.MustCompile(`\b(byte|rune)\b`)

func (P *Program) tag(T types.Type) uint64 {
	tagMu.Lock()
	defer tagMu.Unlock()
	k := aliasRe.ReplaceAllStringFunc(types.TypeString(T, nil), func(m string) string {
		if m == "byte" {
			return "uint8"
		}
		return "int32"
	})
	if t, ok := P.tagOf[k]; ok {
		return t
	}
	t := uint64(len(P.tagType))
	P.tagOf[k] = t
	P.tagType = append(P.tagType, T)
	return t
}

// namedTypes lists all named (non-interface) types declared in repo packages, in a
// deterministic order, as T and *T candidates.
func (P *Program) repoNamedTypes() []types.Type {
	var out []types.Type
	var names []string
	for n := range P.ssaPkgs {
		names = append(names, n)
	}
	sort.Strings(names)
	for _, n := range names {
		sc := P.ssaPkgs[n].Pkg.Scope()
		for _, name := range sc.Names() {
			tn, ok := sc.Lookup(name).(*types.TypeName)
			if !ok || tn.IsAlias() {
				continue
			}
			if _, isI := tn.Type().Underlying().(*types.Interface); isI {
				continue
			}
			out = append(out, tn.Type())
		}
	}
	return out
}

// implementers returns the concrete dynamic types (T or *T) from repo packages that
// implement iface (closed world, DESIGN §2.3.4).
var implMu sync.Mutex
var implCache = map[*types.Interface][]types.Type{}

func (P *Program) implementers(iface *types.Interface) []types.Type {
	implMu.Lock()
	defer implMu.Unlock()
	if r, ok := implCache[iface]; ok {
		return r
	}
	out := P.implementers0(iface)
	implCache[iface] = out
	return out
}

func (P *Program) implementers0(iface *types.Interface) []types.Type {
	var out []types.Type
	for _, T := range P.repoNamedTypes() {
		if types.Implements(T, iface) {
			out = append(out, T)
		}
		pt := types.NewPointer(T)
		if types.Implements(pt, iface) {
			out = append(out, pt)
		}
	}
	return out
}

// method resolves the concrete function for method name on dynamic type T.
func (P *Program) method(T types.Type, name string, from *types.Package) *ssa.Function {
	ms := P.prog.MethodSets.MethodSet(T)
	for i := 0; i < ms.Len(); i++ {
		sel := ms.At(i)
		if sel.Obj().Name() == name {
			return P.prog.MethodValue(sel)
		}
	}
	return nil
}

func (P *Program) pos(p token.Pos) string {
	if !p.IsValid() {
		return "?"
	}
	ps := P.fset.Position(p)
	f := strings.TrimPrefix(ps.Filename, P.repo+"/")
	return fmt.Sprintf("%s:%d", f, ps.Line)
}

func (P *Program) typeOfTag(t uint64) types.Type {
	tagMu.Lock()
	defer tagMu.Unlock()
	if t == 0 || t >= uint64(len(P.tagType)) {
		return nil
	}
	return P.tagType[t]
}

func (P *Program) lookupIfaceMethodResult(nt *types.Named, name string) types.Type {
	it := nt.Underlying().(*types.Interface)
	for i := 0; i < it.NumMethods(); i++ {
		if it.Method(i).Name() == name {
			return it.Method(i).Type().(*types.Signature).Results().At(0).Type()
		}
	}
	return nil
}

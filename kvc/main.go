package main

import (
	"flag"
	"fmt"
	"os"
	"runtime"
	"sort"
	"strings"
	"time"

	"golang.org/x/tools/go/ssa"
)

func usage() {
	fmt.Fprintln(os.Stderr, `usage:
  kvc fn [-repo DIR] [-t SEC] [-v] <substring>...   verify functions whose name contains a substring
  kvc check <property> [--tier quick|thorough]      run the registered check for a property
  kvc replay <file>                                  re-run a recorded replay
  kvc census                                         list functions, contracts and unsupported instructions`)
	os.Exit(2)
}

func main() {
	if len(os.Args) < 2 {
		usage()
	}
	switch os.Args[1] {
	case "fn":
		cmdFn(os.Args[2:])
	case "check":
		os.Exit(cmdCheck(os.Args[2:]))
	case "replay":
		os.Exit(cmdReplay(os.Args[2:]))
	case "census":
		cmdCensus(os.Args[2:])
	case "conform":
		os.Exit(cmdConform(os.Args[2:]))
	case "selftest":
		os.Exit(cmdSelftest(os.Args[2:]))
	default:
		usage()
	}
}

func mustLoad(repo string) *Program {
	P, err := loadProgram(repo)
	if err != nil {
		fmt.Fprintln(os.Stderr, "load:", err)
		os.Exit(3)
	}
	cs, err := loadContracts(P)
	if err != nil {
		fmt.Fprintln(os.Stderr, "contracts:", err)
		os.Exit(3)
	}
	P.contracts = cs
	if err := P.analyseInits(); err != nil {
		fmt.Fprintln(os.Stderr, "init analysis:", err)
		os.Exit(3)
	}
	return P
}

func sortedFuncs(P *Program) []*ssa.Function {
	var fs []*ssa.Function
	for _, f := range P.funcs {
		fs = append(fs, f)
	}
	sort.Slice(fs, func(i, j int) bool { return fs[i].String() < fs[j].String() })
	return fs
}

func cmdFn(args []string) {
	fl := flag.NewFlagSet("fn", flag.ExitOnError)
	repo := fl.String("repo", "/repo", "repository")
	timeout := fl.Int("t", 10, "solver timeout (s)")
	verbose := fl.Bool("v", false, "verbose")
	exact := fl.Bool("exact", false, "exact name match")
	keep := fl.String("keep", "", "keep SMT files of undischarged obligations in this directory")
	fl.Parse(args)
	P := mustLoad(*repo)
	dir, _ := os.MkdirTemp("", "kvc-")
	defer os.RemoveAll(dir)
	if *keep != "" {
		dir = *keep
		os.MkdirAll(dir, 0o755)
	}
	t0 := time.Now()
	for _, fn := range sortedFuncs(P) {
		match := false
		for _, pat := range fl.Args() {
			if *exact && shortFn(fn.String()) == pat || !*exact && strings.Contains(shortFn(fn.String()), pat) {
				match = true
			}
		}
		if !match || len(fn.Blocks) == 0 {
			continue
		}
		res := verifyFunction(P, fn, nil)
		dischargeAll(res.Obls, dir, *timeout, false, runtime.NumCPU())
		printResult(res, *verbose)
	}
	fmt.Printf("total %.1fs, solver %.1fs\n", time.Since(t0).Seconds(), float64(solverSeconds)/1000)
}

func printResult(res *VerifyResult, verbose bool) {
	fmt.Printf("== %s  paths=%d returns=%d obligations=%d\n", shortFn(res.Fn.String()), res.Paths, res.Returns, len(res.Obls))
	if res.Unsup != "" {
		fmt.Printf("   OUTSIDE REACH: %s\n", res.Unsup)
	}
	groups := groupObls(res.Obls)
	for _, g := range groups {
		status := g.status()
		if verbose || status != "discharged" {
			fmt.Printf("   %-11s %s  (%d instances, %s) %s\n", status, g.name, len(g.obls), g.pos, g.solverSummary())
			if status != "discharged" {
				for _, o := range g.obls {
					if o.Result != "unsat" && !strings.HasPrefix(o.Kind, "cover") || strings.HasPrefix(o.Kind, "cover") && o.Result != "sat" {
						g := o.Goal
						if len(g) > 160 && !verbose {
							g = g[:160] + "…"
						}
						fmt.Printf("      -> %s goal=%s\n", o.Result, g)
						if o.Model != nil && verbose {
							fmt.Printf("         model: %s\n", modelSummary(o.Model))
						}
						if o.Result == "error" {
							fmt.Printf("         output: %.600s\n", o.Output)
						}
						break
					}
				}
			}
		}
	}
	if os.Getenv("KVC_FORKS") != "" {
		for k, v := range res.Exec.lineHash {
			fmt.Printf("   forks %4d at %s\n", v, k)
		}
	}
	for _, d := range res.Diag {
		fmt.Printf("   note: %s\n", d)
	}
}

func modelSummary(m map[string]string) string {
	var ks []string
	for k := range m {
		if strings.HasPrefix(k, "in.") {
			ks = append(ks, k)
		}
	}
	sort.Strings(ks)
	var out []string
	for _, k := range ks {
		out = append(out, k+"="+m[k])
	}
	s := strings.Join(out, " ")
	if len(s) > 600 {
		s = s[:600] + "…"
	}
	return s
}

type oblGroup struct {
	name string
	pos  string
	obls []*Obligation
}

func groupObls(obls []*Obligation) []*oblGroup {
	m := map[string]*oblGroup{}
	var order []*oblGroup
	for _, o := range obls {
		g := m[o.Name]
		if g == nil {
			g = &oblGroup{name: o.Name, pos: o.Pos}
			m[o.Name] = g
			order = append(order, g)
		}
		g.obls = append(g.obls, o)
	}
	return order
}

func (g *oblGroup) isCover() bool { return strings.HasPrefix(g.obls[0].Kind, "cover") }

func (g *oblGroup) status() string {
	if g.isCover() {
		// a cover holds when some instance is satisfiable
		last := "none"
		for _, o := range g.obls {
			if o.Result == "sat" {
				return "discharged"
			}
			last = o.Result
		}
		return "VACUOUS(" + last + ")"
	}
	worst := "discharged"
	for _, o := range g.obls {
		switch o.Result {
		case "unsat":
		case "sat":
			return "FAILED"
		default:
			worst = "UNDECIDED(" + o.Result + ")"
		}
	}
	return worst
}

func (g *oblGroup) solverSummary() string {
	var ms int64
	m := map[string]int{}
	for _, o := range g.obls {
		ms += o.Millis
		m[o.Solver]++
	}
	var parts []string
	for k, v := range m {
		parts = append(parts, fmt.Sprintf("%s×%d", k, v))
	}
	sort.Strings(parts)
	return fmt.Sprintf("[%s %dms]", strings.Join(parts, ","), ms)
}

func cmdCensus(args []string) {
	fl := flag.NewFlagSet("census", flag.ExitOnError)
	repo := fl.String("repo", "/repo", "repository")
	fl.Parse(args)
	P := mustLoad(*repo)
	for _, fn := range sortedFuncs(P) {
		ct := P.contracts.lookup(P, fn)
		mark := " "
		if ct != nil {
			mark = "C"
		}
		fmt.Printf("%s %s\n", mark, shortFn(fn.String()))
	}
}

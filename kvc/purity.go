package main

// Functional purity: a syntactic analysis establishing that everything a function computes —
// results, the content of memory it allocates and returns, which path it takes — is
// determined by its (scalar) arguments alone. It holds for any number of loop iterations and
// needs no solver: Go without globals, maps, channels, goroutines, interface calls and external
// calls is deterministic. This is what justifies a `yields name(args) == expr` clause, which
// lets callers treat a result as an (uninterpreted) function of the arguments.

import (
	"fmt"
	"go/token"
	"go/types"

	"golang.org/x/tools/go/ssa"
)

func scalarType(T types.Type) bool {
	b, ok := T.Underlying().(*types.Basic)
	return ok && b.Info()&(types.IsBoolean|types.IsInteger|types.IsFloat) != 0
}

// functionalPure returns "" if fn is functionally pure, else the reason it is not.
func functionalPure(fn *ssa.Function, visiting map[*ssa.Function]bool) string {
	if len(fn.Blocks) == 0 {
		return fmt.Sprintf("%s has no body", fn)
	}
	if visiting[fn] {
		return fmt.Sprintf("%s is recursive", fn)
	}
	visiting[fn] = true
	defer delete(visiting, fn)
	for _, p := range fn.Params {
		if !scalarType(p.Type()) {
			return fmt.Sprintf("%s: parameter %s is not a scalar", fn, p.Name())
		}
	}
	if len(fn.FreeVars) > 0 {
		return fmt.Sprintf("%s is a closure", fn)
	}
	// values that point into memory allocated by this activation
	local := map[ssa.Value]bool{}
	changed := true
	for changed {
		changed = false
		for _, b := range fn.Blocks {
			for _, in := range b.Instrs {
				v, ok := in.(ssa.Value)
				if !ok || local[v] {
					continue
				}
				is := false
				switch x := in.(type) {
				case *ssa.Alloc, *ssa.MakeSlice:
					is = true
				case *ssa.IndexAddr:
					is = local[x.X]
				case *ssa.FieldAddr:
					is = local[x.X]
				case *ssa.Slice:
					is = local[x.X]
				case *ssa.Phi:
					is = len(x.Edges) > 0
					for _, e := range x.Edges {
						if !local[e] {
							is = false
						}
					}
				case *ssa.ChangeType:
					is = local[x.X]
				}
				if is {
					local[v] = true
					changed = true
				}
			}
		}
	}
	for _, b := range fn.Blocks {
		for _, in := range b.Instrs {
			for _, op := range in.Operands(nil) {
				if _, isG := (*op).(*ssa.Global); isG {
					return fmt.Sprintf("%s reads or writes global %s", fn, (*op).Name())
				}
			}
			switch x := in.(type) {
			case *ssa.BinOp, *ssa.Convert, *ssa.ChangeType, *ssa.Phi, *ssa.If, *ssa.Jump, *ssa.Return, *ssa.DebugRef,
				*ssa.Alloc, *ssa.MakeSlice, *ssa.Extract, *ssa.Panic:
			case *ssa.IndexAddr:
				if !local[x.X] {
					return fmt.Sprintf("%s indexes memory it did not allocate", fn)
				}
			case *ssa.FieldAddr:
				if !local[x.X] {
					return fmt.Sprintf("%s addresses memory it did not allocate", fn)
				}
			case *ssa.Slice:
				if !local[x.X] {
					return fmt.Sprintf("%s slices memory it did not allocate", fn)
				}
			case *ssa.Store:
				if !local[x.Addr] {
					return fmt.Sprintf("%s stores to memory it did not allocate", fn)
				}
				if !scalarType(x.Val.Type()) {
					if _, isArr := x.Val.Type().Underlying().(*types.Array); !isArr {
						return fmt.Sprintf("%s stores a non-scalar", fn)
					}
				}
			case *ssa.UnOp:
				if x.Op == token.ARROW {
					return fmt.Sprintf("%s receives from a channel", fn)
				}
				if x.Op == token.MUL && !local[x.X] {
					return fmt.Sprintf("%s loads from memory it did not allocate", fn)
				}
			case *ssa.Index:
			case *ssa.Call:
				if bi, ok := x.Call.Value.(*ssa.Builtin); ok {
					switch bi.Name() {
					case "len", "cap", "min", "max":
						continue
					}
					return fmt.Sprintf("%s calls builtin %s", fn, bi.Name())
				}
				callee := x.Call.StaticCallee()
				if callee == nil || x.Call.IsInvoke() {
					return fmt.Sprintf("%s makes a dynamic call", fn)
				}
				for _, a := range x.Call.Args {
					if !scalarType(a.Type()) {
						return fmt.Sprintf("%s passes a non-scalar to %s", fn, callee)
					}
				}
				if why := functionalPure(callee, visiting); why != "" {
					return why
				}
			default:
				return fmt.Sprintf("%s contains %T", fn, in)
			}
		}
	}
	return ""
}

// yieldExprOK: the yielded expression reads only scalar results or the content/length of a
// returned slice at constant indices (never an address).
func yieldExprOK(x Expr, results map[string]bool) bool {
	switch t := x.(type) {
	case EIdent:
		return results[t.Name]
	case EIndex:
		id, ok := t.X.(EIdent)
		_, lit := t.I.(ELit)
		return ok && results[id.Name] && lit
	case ECall:
		if id, ok := t.Fun.(EIdent); ok && id.Name == "len" && len(t.Args) == 1 {
			a, ok := t.Args[0].(EIdent)
			return ok && results[a.Name]
		}
	}
	return false
}

package main

// Replay: turn a solver model into an in-package Go test that runs the REAL function,
// injected with `go test -overlay` (nothing is written into /repo).

import (
	"bytes"
	"context"
	"encoding/json"
	"fmt"
	"go/types"
	"os"
	"os/exec"
	"path/filepath"
	"regexp"
	"sort"
	"strconv"
	"strings"
	"time"

	"golang.org/x/tools/go/ssa"
)

type replayFile struct {
	Property    string            `json:"property"`
	Obligation  string            `json:"obligation"`
	Kind        string            `json:"kind"`
	Function    string            `json:"function"`
	Source      string            `json:"source"`
	Goal        string            `json:"goal"`
	Status      string            `json:"status"`
	Solver      string            `json:"solver"`
	SolverOut   string            `json:"solver_output"`
	Model       map[string]string `json:"model,omitempty"`
	Package     string            `json:"package,omitempty"`
	PkgDir      string            `json:"pkg_dir,omitempty"`
	TestName    string            `json:"test_name,omitempty"`
	TestSource  string            `json:"test_source,omitempty"`
	Verdict     string            `json:"verdict"`
	ReplayOut   string            `json:"replay_output,omitempty"`
	Note        string            `json:"note,omitempty"`
	Concretised bool              `json:"concretised_by_unrolling,omitempty"`
}

func hexVal(s string) (uint64, bool) {
	switch {
	case strings.HasPrefix(s, "#x"):
		v, err := strconv.ParseUint(s[2:], 16, 64)
		return v, err == nil
	case strings.HasPrefix(s, "#b"):
		v, err := strconv.ParseUint(s[2:], 2, 64)
		return v, err == nil
	case s == "true":
		return 1, true
	case s == "false":
		return 0, true
	case strings.HasPrefix(s, "(fp "):
		// (fp #b<sign> #b<exp> #x<mantissa>|#b<mantissa>): reassemble the IEEE bit pattern
		f := strings.Fields(strings.Trim(s, "()"))
		if len(f) != 4 {
			return 0, false
		}
		bits := ""
		for _, p := range f[1:] {
			switch {
			case strings.HasPrefix(p, "#b"):
				bits += p[2:]
			case strings.HasPrefix(p, "#x"):
				for _, ch := range p[2:] {
					v, err := strconv.ParseUint(string(ch), 16, 8)
					if err != nil {
						return 0, false
					}
					bits += fmt.Sprintf("%04b", v)
				}
			default:
				return 0, false
			}
		}
		v, err := strconv.ParseUint(bits, 2, 64)
		return v, err == nil
	case strings.HasPrefix(s, "(_ "):
		// (_ +zero 8 24), (_ -zero 8 24), (_ +oo 8 24), (_ -oo 8 24), (_ NaN 8 24)
		f := strings.Fields(strings.Trim(s, "()"))
		if len(f) != 4 {
			return 0, false
		}
		eb, _ := strconv.Atoi(f[2])
		sb, _ := strconv.Atoi(f[3])
		w := uint(eb + sb)
		expAll := (uint64(1)<<uint(eb) - 1) << uint(sb-1)
		switch f[1] {
		case "+zero":
			return 0, true
		case "-zero":
			return uint64(1) << (w - 1), true
		case "+oo":
			return expAll, true
		case "-oo":
			return uint64(1)<<(w-1) | expAll, true
		case "NaN":
			return expAll | uint64(1)<<uint(sb-2), true
		}
	}
	return 0, false
}

type modelReader struct {
	e     *Exec
	extra []*Term   // asserted definitions q = term
	soft  []*Term   // preferences (small inputs): tried first, dropped if unsatisfiable
	rnd   []rndPref // conformance runs: inputs that should take pseudo-random values where the path allows (MaxSMT)
	salt  uint64
	names map[string]*Term
	vals  map[string]string
	n     int
}

type rndPref struct {
	name  string
	width int
}

func (m *modelReader) want(t *Term) string {
	if t.Op == OVar || t.Op == OConst {
		return ""
	}
	m.n++
	name := fmt.Sprintf("q.%d", m.n)
	v := m.e.c.Var(name, t.S)
	m.extra = append(m.extra, m.e.c.Eq(v, t))
	m.names[name] = t
	return name
}

// valueOf returns the model value of a term (after solve()).
func (m *modelReader) valueOf(t *Term, qname string) (uint64, bool) {
	if t.Op == OConst {
		return t.C, true
	}
	if t.Op == OVar {
		v, ok := m.vals[t.Name]
		if !ok {
			return 0, false
		}
		return hexVal(v)
	}
	v, ok := m.vals[qname]
	if !ok {
		return 0, false
	}
	return hexVal(v)
}

type goBuilder struct {
	P        *Program
	e        *Exec
	m        *modelReader
	pkg      *types.Package
	imports  map[string]string
	plan     []func() // phase 2 closures
	pre      []string // statements before the call
	fillers  []string // names of []byte backing arrays to re-fill for differential runs
	textSeps []byte   // separators of the decimal-text view used by the obligation
	exact    bool     // conformance runs: the whole input must be taken from the model
	partial  bool     // an input was longer than its modelled prefix
	ok       bool
	why      string
	idn      int
}

func (g *goBuilder) qual(p *types.Package) string {
	if p == g.pkg {
		return ""
	}
	g.imports[p.Path()] = p.Name()
	return p.Name()
}

func (g *goBuilder) typeStr(T types.Type) string {
	return types.TypeString(T, g.qual)
}

func (g *goBuilder) fresh(prefix string) string {
	g.idn++
	return fmt.Sprintf("%s%d", prefix, g.idn)
}

const maxReplayBytes = 96

// value plans Go code producing a value of type T whose slots are the given terms.
// It returns a function that, after the model has been solved, yields the Go expression.
func (g *goBuilder) value(T types.Type, v Val, depth int) func() string {
	e := g.e
	c := e.c
	lay := g.P.lay
	switch t := T.Underlying().(type) {
	case *types.Basic:
		switch {
		case t.Info()&types.IsBoolean != 0:
			q := g.m.want(v[0])
			return func() string {
				x, _ := g.m.valueOf(v[0], q)
				return fmt.Sprintf("%v", x != 0)
			}
		case t.Info()&types.IsInteger != 0:
			q := g.m.want(v[0])
			if g.exact && v[0].S.K == KBV {
				name := q
				if v[0].Op == OVar {
					name = v[0].Name
				}
				if name != "" {
					g.m.rnd = append(g.m.rnd, rndPref{name, v[0].S.W})
				}
			}
			return func() string {
				x, _ := g.m.valueOf(v[0], q)
				if isSigned(T) {
					return fmt.Sprintf("%s(%d)", g.typeStr(T), signed(x, v[0].S.W))
				}
				return fmt.Sprintf("%s(%d)", g.typeStr(T), x)
			}
		case t.Info()&types.IsFloat != 0:
			q := g.m.want(v[0])
			return func() string {
				x, _ := g.m.valueOf(v[0], q)
				g.imports["math"] = "math"
				if v[0].S.W == 32 {
					return fmt.Sprintf("%s(math.Float32frombits(0x%x))", g.typeStr(T), x)
				}
				return fmt.Sprintf("%s(math.Float64frombits(0x%x))", g.typeStr(T), x)
			}
		case t.Info()&types.IsString != 0:
			if depth == 0 && len(g.textSeps) > 0 {
				// the obligation talks about this string through the decimal-text view
				// (text.go): build a text with that many components and those values
				sep := g.textSeps[0]
				qn := g.m.want(e.txtNParts(v, sep))
				var qok, qv []string
				for k := 0; k < 5; k++ {
					p := e.txtPart(v, sep, c.Const(64, uint64(k)))
					qok = append(qok, g.m.want(e.txtAtoiOk(p)))
					qv = append(qv, g.m.want(e.txtAtoiV(p)))
				}
				return func() string {
					n, _ := g.m.vals[qn], 0
					nn, _ := hexVal(n)
					if nn < 1 {
						nn = 1
					}
					if nn > 5 {
						nn = 5
					}
					var parts []string
					for k := 0; k < int(nn); k++ {
						okv, _ := hexVal(g.m.vals[qok[k]])
						vv, _ := hexVal(g.m.vals[qv[k]])
						if okv == 1 {
							parts = append(parts, fmt.Sprintf("%d", int64(vv)))
						} else {
							parts = append(parts, "x")
						}
					}
					return fmt.Sprintf("%s(%q)", g.typeStr(T), strings.Join(parts, string(rune(sep))))
				}
			}
			ql := g.m.want(v[1])
			var qs []string
			for i := 0; i < 40; i++ {
				qs = append(qs, g.m.want(e.read(e.initState().h[0], c.Add(v[0], c.Const(64, uint64(i))))))
			}
			return func() string {
				n, _ := g.m.valueOf(v[1], ql)
				if n > 40 {
					n = 40
				}
				var bs []byte
				for i := 0; i < int(n); i++ {
					x, _ := g.m.valueOf(e.read(e.initState().h[0], c.Add(v[0], c.Const(64, uint64(i)))), qs[i])
					bs = append(bs, byte(x))
				}
				return fmt.Sprintf("%s(%q)", g.typeStr(T), string(bs))
			}
		}
	case *types.Slice:
		if depth > 3 {
			return func() string { g.partial = true; return "nil" }
		}
		es := lay.nslots(t.Elem())
		if depth > 0 {
			// pointee slices are arbitrary in the model unless constrained: ask for well-formed ones
			var vs State
			vs.brk = e.brk0
			vs = e.assumeValid(vs, T, v, true)
			g.m.extra = append(g.m.extra, vs.pcList()...)
			g.m.extra = append(g.m.extra, c.Ule(v[2], c.Const(64, 4096)))
		}
		if depth == 0 {
			g.m.soft = append(g.m.soft, c.Ule(v[1], c.Const(64, 2048)), c.Ule(v[2], c.Const(64, 4096)))
		}
		if g.exact {
			g.m.soft = append(g.m.soft, c.Ule(v[2], c.Const(64, maxReplayBytes)))
		}
		ql, qc := g.m.want(v[1]), g.m.want(v[2])
		// element plans for the first few elements
		nEl := maxReplayBytes
		if es > 1 {
			nEl = 8
		}
		var elems []func() string
		for i := 0; i < nEl; i++ {
			a := c.Add(v[0], c.Const(64, uint64(i*es)))
			ev := e.loadFrom(e.initState().h, a, t.Elem())
			elems = append(elems, g.value(t.Elem(), ev, depth+1))
		}
		name := g.fresh("s")
		isByte := false
		if b, ok := t.Elem().Underlying().(*types.Basic); ok && b.Kind() == types.Uint8 {
			isByte = true
		}
		return func() string {
			ln, _ := g.m.valueOf(v[1], ql)
			cp, _ := g.m.valueOf(v[2], qc)
			if cp == 0 && ln == 0 {
				bq := g.m.want(v[0])
				_ = bq
				return fmt.Sprintf("%s(nil)", g.typeStr(T))
			}
			if ln > 1<<16 {
				if depth > 0 {
					g.partial = true
					return fmt.Sprintf("%s(nil)", g.typeStr(T))
				}
				g.ok, g.why = false, fmt.Sprintf("model needs a %d-element slice", ln)
				ln = 1 << 16
			}
			if cp < ln {
				cp = ln
			}
			if int(cp) > len(elems) {
				g.partial = true
			}
			if cp > ln+4096 {
				cp = ln + 4096
			}
			var sb strings.Builder
			fmt.Fprintf(&sb, "%s := make(%s, %d)\n", name, g.typeStr(T), cp)
			if isByte {
				var bs []string
				for i := 0; i < int(cp) && i < len(elems); i++ {
					bs = append(bs, strings.TrimSuffix(strings.TrimPrefix(elems[i](), "byte("), ")"))
				}
				fmt.Fprintf(&sb, "copy(%s, []byte{%s})\n", name, strings.Join(bs, ", "))
			} else {
				for i := 0; i < int(cp) && i < len(elems); i++ {
					fmt.Fprintf(&sb, "%s[%d] = %s\n", name, i, elems[i]())
				}
			}
			if isByte {
				// bytes beyond the modelled prefix and beyond len: pattern byte `fill`
				fmt.Fprintf(&sb, "for i := %d; i < len(%s); i++ { %s[i] = fill }\n", min(int(cp), len(elems)), name, name)
				if cp > ln {
					fmt.Fprintf(&sb, "for i := %d; i < len(%s); i++ { %s[i] = fill }\n", ln, name, name)
				}
			}
			g.pre = append(g.pre, sb.String())
			return fmt.Sprintf("%s[:%d]", name, ln)
		}
	case *types.Pointer:
		if depth > 3 {
			return func() string { g.partial = true; return "nil" }
		}
		q := g.m.want(v[0])
		pv := e.loadFrom(e.initState().h, v[0], t.Elem())
		inner := g.value(t.Elem(), pv, depth+1)
		name := g.fresh("p")
		return func() string {
			x, _ := g.m.valueOf(v[0], q)
			if x == 0 {
				return fmt.Sprintf("(%s)(nil)", g.typeStr(T))
			}
			g.pre = append(g.pre, fmt.Sprintf("%s := new(%s)\n*%s = %s\n", name, g.typeStr(t.Elem()), name, inner()))
			return name
		}
	case *types.Struct:
		off := 0
		var fs []func() string
		var names []string
		for i := 0; i < t.NumFields(); i++ {
			n := lay.nslots(t.Field(i).Type())
			f := t.Field(i)
			if !f.Exported() && f.Pkg() != g.pkg {
				// cannot be set from this package: leave zero
				off += n
				continue
			}
			fs = append(fs, g.value(f.Type(), v[off:off+n], depth+1))
			names = append(names, f.Name())
			off += n
		}
		return func() string {
			var parts []string
			for i, f := range fs {
				parts = append(parts, names[i]+": "+f())
			}
			return fmt.Sprintf("%s{%s}", g.typeStr(T), strings.Join(parts, ", "))
		}
	case *types.Array:
		es := lay.nslots(t.Elem())
		var fs []func() string
		for i := 0; i < int(t.Len()) && i < 64; i++ {
			fs = append(fs, g.value(t.Elem(), v[i*es:(i+1)*es], depth+1))
		}
		return func() string {
			var parts []string
			for _, f := range fs {
				parts = append(parts, f())
			}
			return fmt.Sprintf("%s{%s}", g.typeStr(T), strings.Join(parts, ", "))
		}
	case *types.Interface:
		qt := g.m.want(v[0])
		// candidate dynamic types: plan each implementer (closed world)
		impls := g.P.implementers(t)
		plans := map[uint64]func() string{}
		if depth <= 2 {
			for _, I := range impls {
				tag := g.P.tag(I)
				if pointerShaped(I) {
					plans[tag] = g.value(I, Val{v[1]}, depth+1)
				} else {
					plans[tag] = g.value(I, e.loadFrom(e.initState().h, v[1], I), depth+1)
				}
			}
		}
		return func() string {
			x, _ := g.m.valueOf(v[0], qt)
			if x == 0 {
				return fmt.Sprintf("%s(nil)", g.typeStr(T))
			}
			if p, ok := plans[x]; ok {
				return fmt.Sprintf("%s(%s)", g.typeStr(T), p())
			}
			if DT := g.P.typeOfTag(x); DT != nil && t.NumMethods() == 0 {
				// a basic dynamic type (e.g. *uint8 inside interface{})
				if pt, ok := DT.(*types.Pointer); ok {
					return fmt.Sprintf("%s(new(%s))", g.typeStr(T), g.typeStr(pt.Elem()))
				}
			}
			if depth > 0 {
				// unconstrained pointee: any value will do
				return fmt.Sprintf("%s(nil)", g.typeStr(T))
			}
			g.ok, g.why = false, "interface value of unknown dynamic type in model"
			return "nil"
		}
	}
	g.ok, g.why = false, fmt.Sprintf("cannot rebuild a value of type %v", T)
	return func() string { return "nil" }
}

// solveModel re-solves the failing obligation with the query definitions added.
func solveModel(ob *Obligation, m *modelReader, dir string) (map[string]string, string) {
	asserts := append([]*Term{}, ob.Full...)
	if len(asserts) == 0 {
		asserts = append(asserts, ob.Asserts...)
	}
	asserts = append(asserts, m.extra...)
	file := filepath.Join(dir, "replay-model.smt2")
	defer os.Remove(file)
	for _, withSoft := range []bool{true, false} {
		as := asserts
		if withSoft {
			if len(m.soft) == 0 {
				continue
			}
			as = append(append([]*Term{}, asserts...), m.soft...)
		}
		script := ob.ctx.Script(as, true)
		if len(m.rnd) > 0 {
			// soft preferences: pseudo-random input values wherever the path admits them
			var sb strings.Builder
			for i, rp := range m.rnd {
				h := (uint64(i)+1)*0x9E3779B97F4A7C15 ^ m.salt*0xD1B54A32D192ED03
				h ^= h >> 29
				h *= 0xBF58476D1CE4E5B9
				h ^= h >> 32
				if rp.width < 64 {
					h &= (uint64(1) << uint(rp.width)) - 1
				}
				fmt.Fprintf(&sb, "(assert-soft (= %s (_ bv%d %d)))\n", smtName(rp.name), h, rp.width)
			}
			if k := strings.Index(script, "(check-sat)"); k >= 0 {
				script = script[:k] + sb.String() + script[k:]
			}
		}
		os.WriteFile(file, []byte(script), 0o644)
		for _, sp := range solvers[:2] {
			if len(m.rnd) > 0 && sp.name != "z3-new" {
				continue // assert-soft needs z3's optimising engine
			}
			r := runSolver(sp, file, 60)
			if r.res == "sat" {
				return parseModel(r.out), r.out
			}
		}
	}
	return nil, ""
}

var goTestRe = regexp.MustCompile(`KVC-REPLAY: (\S+)(.*)`)

// contractToGo renders a contract expression as Go source (subset); ok=false if it
// uses constructs the translator does not cover.
func contractToGo(x Expr, olds *[]string) (string, bool) {
	switch t := x.(type) {
	case EIdent:
		return t.Name, true
	case ELit:
		return t.V.String(), true
	case EBool:
		return fmt.Sprintf("%v", t.V), true
	case EStr:
		return strconv.Quote(t.V), true
	case EUnary:
		s, ok := contractToGo(t.X, olds)
		return "(" + t.Op + s + ")", ok
	case EBinary:
		a, ok1 := contractToGo(t.X, olds)
		b, ok2 := contractToGo(t.Y, olds)
		switch t.Op {
		case "==>":
			return "(!(" + a + ") || (" + b + "))", ok1 && ok2
		case "<==>":
			return "((" + a + ") == (" + b + "))", ok1 && ok2
		}
		return "(" + a + " " + t.Op + " " + b + ")", ok1 && ok2
	case ECond:
		cnd, ok1 := contractToGo(t.C, olds)
		a, ok2 := contractToGo(t.A, olds)
		b, ok3 := contractToGo(t.B, olds)
		return fmt.Sprintf("func() (r interface{}) { if %s { return %s }; return %s }()", cnd, a, b), ok1 && ok2 && ok3 && false
	case EIndex:
		a, ok1 := contractToGo(t.X, olds)
		b, ok2 := contractToGo(t.I, olds)
		return a + "[" + b + "]", ok1 && ok2
	case ESlice:
		a, ok := contractToGo(t.X, olds)
		lo, hi := "", ""
		if t.Lo != nil {
			var o2 bool
			lo, o2 = contractToGo(t.Lo, olds)
			ok = ok && o2
		}
		if t.Hi != nil {
			var o2 bool
			hi, o2 = contractToGo(t.Hi, olds)
			ok = ok && o2
		}
		return a + "[" + lo + ":" + hi + "]", ok
	case ESel:
		a, ok := contractToGo(t.X, olds)
		return a + "." + t.Sel, ok
	case EAssert:
		a, ok := contractToGo(t.X, olds)
		return a + ".(" + t.T + ")", ok
	case EType:
		return t.T, true
	case EQuant:
		lo, ok1 := contractToGo(t.Lo, olds)
		hi, ok2 := contractToGo(t.Hi, olds)
		body, ok3 := contractToGo(t.Body, olds)
		if t.Exists {
			return fmt.Sprintf("func() bool { for %s := int(%s); %s < int(%s); %s++ { if %s { return true } }; return false }()", t.Var, lo, t.Var, hi, t.Var, body), ok1 && ok2 && ok3
		}
		return fmt.Sprintf("func() bool { for %s := int(%s); %s < int(%s); %s++ { if !(%s) { return false } }; return true }()", t.Var, lo, t.Var, hi, t.Var, body), ok1 && ok2 && ok3
	case ECall:
		if id, ok := t.Fun.(EIdent); ok {
			switch id.Name {
			case "old":
				s, ok := contractToGo(t.Args[0], olds)
				if !ok {
					return "", false
				}
				name := fmt.Sprintf("old%d", len(*olds))
				*olds = append(*olds, name+" := "+s)
				return name, true
			case "typeis":
				a, ok := contractToGo(t.Args[0], olds)
				ty := t.Args[1].(EType).T
				return fmt.Sprintf("func() bool { _, ok := (%s).(%s); return ok }()", a, ty), ok
			case "sep", "fresh", "allocated", "payload":
				return "", false
			case "nparts", "part", "atoiok", "atoiv":
				var as []string
				okAll := true
				for _, a := range t.Args {
					s, o2 := contractToGo(a, olds)
					okAll = okAll && o2
					as = append(as, s)
				}
				replayTextUsed = true
				return "kvcTxt_" + id.Name + "(" + strings.Join(as, ", ") + ")", okAll
			}
			// spec function of the package: expand its body
			sf := replaySpecs[replayPkg+"."+id.Name]
			if sf == nil {
				sf = replaySpecs[id.Name]
			}
			if sf != nil && len(sf.Params) == len(t.Args) {
				sub := map[string]Expr{}
				for i, p := range sf.Params {
					sub[p] = t.Args[i]
				}
				return contractToGo(substExpr(sf.Body, sub), olds)
			}
		}
		f, ok := contractToGo(t.Fun, olds)
		var as []string
		for _, a := range t.Args {
			s, o2 := contractToGo(a, olds)
			ok = ok && o2
			as = append(as, s)
		}
		if _, isT := t.Fun.(EType); isT {
			f = "(" + f + ")"
		}
		return f + "(" + strings.Join(as, ", ") + ")", ok
	}
	return "", false
}

var conformSalt uint64 // not synchronised: only varies the pseudo-random preferences

var (
	replaySpecs    map[string]*SpecFun
	replayPkg      string
	replayTextUsed bool
)

const replayTextHelpers = `
func kvcTxt_nparts(s string, c byte) int { return len(strings.Split(s, string(rune(c)))) }
func kvcTxt_part(s string, c byte, k int) string {
	p := strings.Split(s, string(rune(c)))
	if k >= 0 && k < len(p) {
		return p[k]
	}
	return "\x00"
}
func kvcTxt_atoiok(t string) bool { _, err := strconv.Atoi(t); return err == nil }
func kvcTxt_atoiv(t string) int   { v, _ := strconv.Atoi(t); return v }
`

// substExpr replaces identifiers by expressions (spec-function expansion).
func substExpr(x Expr, sub map[string]Expr) Expr {
	switch t := x.(type) {
	case EIdent:
		if r, ok := sub[t.Name]; ok {
			return r
		}
		return t
	case EUnary:
		return EUnary{t.Op, substExpr(t.X, sub)}
	case EBinary:
		return EBinary{t.Op, substExpr(t.X, sub), substExpr(t.Y, sub)}
	case ECall:
		var as []Expr
		for _, a := range t.Args {
			as = append(as, substExpr(a, sub))
		}
		return ECall{t.Fun, as}
	case EIndex:
		return EIndex{substExpr(t.X, sub), substExpr(t.I, sub)}
	case ESel:
		return ESel{substExpr(t.X, sub), t.Sel}
	case ECond:
		return ECond{substExpr(t.C, sub), substExpr(t.A, sub), substExpr(t.B, sub)}
	case EAssert:
		return EAssert{substExpr(t.X, sub), t.T}
	}
	return x
}

// makeReplay builds, runs and records a replay for a failing obligation group.
func makeReplay(P *Program, prop string, g *oblGroup, o checkOpts) (string, string) {
	ob := firstFailing(g)
	rf := &replayFile{Property: prop, Obligation: g.name, Kind: ob.Kind, Function: shortFn(ob.Func), Source: ob.Pos,
		Goal: ob.Goal, Status: g.status(), Solver: ob.Solver, SolverOut: truncate(ob.Output, 4000), Verdict: "not-attempted"}
	dir := filepath.Join(verifDir, "replays", prop)
	os.MkdirAll(dir, 0o755)
	path := filepath.Join(dir, sanitize(g.name)+".json")
	finish := func() (string, string) {
		b, _ := json.MarshalIndent(rf, "", " ")
		os.WriteFile(path, b, 0o644)
		if rf.Verdict == "confirmed" {
			return path, ""
		}
		return path, "no-failing-input-found"
	}
	if ob.Kind == "table" && !o.noReplay {
		// a ground fact about the registry: replay it on the running package
		key := g.name[strings.LastIndex(g.name, ":")+1:]
		rf.TestName = "TestKvcReplayTable"
		rf.Package = modPath + "/knx/dpt"
		rf.PkgDir = "knx/dpt"
		rf.TestSource = fmt.Sprintf(`package dpt

import (
	"fmt"
	"reflect"
	"regexp"
	"strings"
	"testing"
)

func TestKvcReplayTable(t *testing.T) {
	what, key := %q, %q
	bad := false
	switch {
	case strings.Contains(what, "#table.keyform:"):
		_, ok := Produce(key)
		bad = ok && !regexp.MustCompile("^[0-9]+\\.[0-9]{3}$").MatchString(key)
	case strings.Contains(what, "#table.typed:"):
		d, ok := Produce(key)
		bad = ok && reflect.TypeOf(d).String() != "*dpt.DPT_"+strings.Replace(key, ".", "", 1)
	case strings.Contains(what, "#table.complete:"):
		bad = true
		for _, n := range ListSupportedTypes() {
			if d, ok := Produce(n); ok && reflect.TypeOf(d).Elem().Name() == key {
				bad = false
			}
		}
	}
	if bad {
		fmt.Println("KVC-REPLAY: confirmed", what)
	} else {
		fmt.Println("KVC-REPLAY: not-reproduced", what)
	}
}
`, g.name, key)
		runReplayTest(P.repo, rf)
		return finish()
	}
	if ob.Result != "sat" || ob.exec == nil || o.noReplay {
		if ob.Result != "sat" {
			rf.Note = "the solver gave no model (" + ob.Result + "); the obligation is reported because it no longer discharges"
		}
		return finish()
	}
	e := ob.exec
	fn := e.rootFn
	// obligations whose model starts at a cut loop head are concretised by unrolling
	if obNeedsUnroll(e, ob) {
		if ob2 := concretise(P, fn, g.name); ob2 != nil {
			ob = ob2
			e = ob.exec
			rf.Concretised = true
		} else {
			rf.Note = "counterexample starts from a loop invariant and could not be concretised by unrolling 1..6 iterations"
			return finish()
		}
	}
	src, testName, why := buildReplayTest(P, e, fn, ob, rf)
	if src == "" {
		rf.Note = "replay not generated: " + why
		return finish()
	}
	rf.TestSource = src
	rf.TestName = testName
	rf.Package = fn.Pkg.Pkg.Path()
	rf.PkgDir = strings.TrimPrefix(rf.Package, modPath+"/")
	runReplayTest(P.repo, rf)
	return finish()
}

func truncate(s string, n int) string {
	if len(s) > n {
		return s[:n] + "…"
	}
	return s
}

func obNeedsUnroll(e *Exec, ob *Obligation) bool {
	for _, a := range ob.Full {
		for _, id := range ob.ctx.freeVars(a) {
			_ = id
		}
	}
	// cheap test: any variable named phi.* or hv.loop* in the obligation
	s := ob.ctx.Script(ob.Full, false)
	return strings.Contains(s, "|phi.") || strings.Contains(s, "|hv.loop") || strings.Contains(s, "|hva.loop")
}

// concretise re-runs the function with loop contracts disabled (pure unrolling) and
// returns a failing instance of the same obligation, whose model is an entry state.
func concretise(P *Program, fn *ssa.Function, name string) *Obligation {
	for _, k := range []int{1, 2, 3} {
		res := verifyFunctionOpt(P, fn, nil, func(e *Exec) { e.noCut = true; e.cfg.unroll = k; e.cfg.maxPaths = 400; e.maxSteps = 400000 })
		var cands []*Obligation
		for _, ob := range res.Obls {
			if ob.Name == name && !ob.Trivial {
				cands = append(cands, ob)
			}
		}
		if len(cands) == 0 {
			continue
		}
		dir, _ := os.MkdirTemp("", "kvc-conc-")
		dischargeAll(cands, dir, 20, false, 8)
		os.RemoveAll(dir)
		for _, ob := range cands {
			if ob.Result == "sat" {
				return ob
			}
		}
	}
	return nil
}

func buildReplayTest(P *Program, e *Exec, fn *ssa.Function, ob *Obligation, rf *replayFile) (string, string, string) {
	if fn.Pkg == nil {
		return "", "", "function has no package"
	}
	ct := e.rootCt
	m := &modelReader{e: e, names: map[string]*Term{}, salt: conformSalt}
	g := &goBuilder{P: P, e: e, m: m, pkg: fn.Pkg.Pkg, imports: map[string]string{"testing": "testing", "fmt": "fmt"}, ok: true}
	g.exact = ob.Kind == "cover.return" && ob.retSt != nil
	seenT := map[*Term]bool{}
	var findSeps func(t *Term)
	findSeps = func(t *Term) {
		if seenT[t] {
			return
		}
		seenT[t] = true
		if t.Op == OApply && t.Name == "txt.nparts" && len(t.Args) == 3 && t.Args[2].IsConst() {
			b := byte(t.Args[2].C)
			dup := false
			for _, x := range g.textSeps {
				dup = dup || x == b
			}
			if !dup {
				g.textSeps = append(g.textSeps, b)
			}
		}
		for _, a := range t.Args {
			findSeps(a)
		}
	}
	for _, a := range ob.Full {
		findSeps(a)
	}
	replaySpecs = P.contracts.specs
	replayPkg = shortPkg(fn.Pkg.Pkg.Path())
	replayTextUsed = false
	var plans []func() string
	var names []string
	for i, p := range fn.Params {
		name := p.Name()
		if ct != nil && i < len(ct.Params) && ct.Params[i] != "_" {
			name = ct.Params[i]
		}
		names = append(names, name)
		plans = append(plans, g.value(p.Type(), e.paramVals[i], 0))
	}
	// conformance (cover.return): what the symbolic execution predicts for the observable
	// scalars of this path: results, and the pointees of pointer parameters
	type obsv struct {
		goExpr string
		pred   func() string
	}
	var observe []obsv
	scalarObs := func(goExpr string, T types.Type, t *Term) {
		b, ok := T.Underlying().(*types.Basic)
		if !ok {
			return
		}
		switch {
		case b.Info()&types.IsBoolean != 0:
			q := m.want(t)
			observe = append(observe, obsv{"fmt.Sprint(bool(" + goExpr + "))", func() string {
				x, _ := m.valueOf(t, q)
				return fmt.Sprint(x != 0)
			}})
		case b.Info()&types.IsInteger != 0:
			q := m.want(t)
			conv := "uint64"
			if isSigned(T) {
				conv = "int64"
			}
			observe = append(observe, obsv{"fmt.Sprint(" + conv + "(" + goExpr + "))", func() string {
				x, _ := m.valueOf(t, q)
				if isSigned(T) {
					return fmt.Sprint(signed(x, t.S.W))
				}
				return fmt.Sprint(x)
			}})
		case b.Info()&types.IsFloat != 0:
			q := m.want(t)
			g.imports["math"] = "math"
			fn := "math.Float64bits(float64("
			if intWidth(T) == 32 {
				fn = "math.Float32bits(float32("
			}
			observe = append(observe, obsv{"fmt.Sprintf(\"%#x\", " + fn + goExpr + ")))", func() string {
				x, _ := m.valueOf(t, q)
				return fmt.Sprintf("%#x", x)
			}})
		}
	}
	var structObs func(goExpr string, T types.Type, v Val)
	structObs = func(goExpr string, T types.Type, v Val) {
		switch u := T.Underlying().(type) {
		case *types.Basic:
			if len(v) == 1 {
				scalarObs(goExpr, T, v[0])
			}
		case *types.Struct:
			off := 0
			for i := 0; i < u.NumFields(); i++ {
				n := P.lay.nslots(u.Field(i).Type())
				if u.Field(i).Name() != "_" && off+n <= len(v) {
					structObs(goExpr+"."+u.Field(i).Name(), u.Field(i).Type(), v[off:off+n])
				}
				off += n
			}
		}
	}
	conform := ob.Kind == "cover.return" && ob.retSt != nil
	if conform {
		res := fn.Signature.Results()
		off := 0
		for i := 0; i < res.Len(); i++ {
			n := P.lay.nslots(res.At(i).Type())
			name := fmt.Sprintf("result%d", i)
			if ct != nil && i < len(ct.Results) {
				name = ct.Results[i]
			}
			if off+n <= len(ob.retVals) {
				rv := ob.retVals[off : off+n]
				if types.Identical(res.At(i).Type(), types.Universe.Lookup("error").Type()) {
					t := e.c.Eq(rv[0], e.c.Const(64, 0))
					q := m.want(t)
					observe = append(observe, obsv{"fmt.Sprint(" + name + " == nil)", func() string {
						x, _ := m.valueOf(t, q)
						return fmt.Sprint(x != 0)
					}})
				} else {
					structObs(name, res.At(i).Type(), rv)
				}
			}
			off += n
		}
		for i, p := range fn.Params {
			if pt, ok := p.Type().Underlying().(*types.Pointer); ok && i < len(names) {
				if _, isStruct := pt.Elem().Underlying().(*types.Struct); isStruct || scalarType(pt.Elem()) {
					structObs("(*"+names[i]+")", pt.Elem(), e.loadFrom(ob.retSt.h, e.paramVals[i][0], pt.Elem()))
				}
			}
		}
	}
	if conform {
		// sample only inputs on which every float->int conversion is defined (out-of-range
		// results are implementation-defined in Go and unspecified in the model)
		m.extra = append(m.extra, e.convRange...)
	}
	dir, _ := os.MkdirTemp("", "kvc-replay-")
	defer os.RemoveAll(dir)
	vals, out := solveModel(ob, m, dir)
	if vals == nil {
		return "", "", "model could not be re-solved with value queries"
	}
	_ = out
	m.vals = vals
	rf.Model = map[string]string{}
	for k, v := range vals {
		if strings.HasPrefix(k, "in.") {
			rf.Model[k] = v
		}
	}
	var argExprs []string
	for i := range plans {
		argExprs = append(argExprs, plans[i]())
	}
	if !g.ok {
		return "", "", g.why
	}
	// call expression
	var call string
	res := fn.Signature.Results()
	var resNames []string
	for i := 0; i < res.Len(); i++ {
		n := fmt.Sprintf("result%d", i)
		if ct != nil && i < len(ct.Results) {
			n = ct.Results[i]
		}
		resNames = append(resNames, n)
	}
	if fn.Signature.Recv() != nil {
		call = fmt.Sprintf("%s.%s(%s)", names[0], fn.Name(), strings.Join(names[1:], ", "))
	} else {
		call = fmt.Sprintf("%s(%s)", fn.Name(), strings.Join(names, ", "))
	}
	if fn.Signature.Variadic() {
		call = strings.TrimSuffix(call, ")") + "...)"
	}
	// predicate
	var olds []string
	pred := ""
	predNote := ""
	detBase := ""
	switch {
	case strings.HasPrefix(ob.Kind, "nopanic"):
		pred = "panic"
	case ob.Kind == "confine":
		pred = "differential"
	case conform:
		if len(observe) == 0 {
			return "", "", "nothing scalar to observe on this path"
		}
		if g.partial {
			return "", "", "an input of this path is longer than the modelled prefix"
		}
		pred = "conform"
		var ps []string
		for _, o := range observe {
			ps = append(ps, o.pred())
		}
		predNote = strings.Join(ps, " ")
	case ob.Kind == "determined":
		// the declared span of the output must not depend on what the buffer held before
		var di int
		if _, err := fmt.Sscanf(ob.Label, "d%d", &di); err == nil && di < len(ct.Determines) {
			if sl, ok := ct.Determines[di].(ESlice); ok {
				if id, ok := sl.X.(EIdent); ok {
					if span, ok := contractToGo(ct.Determines[di], &olds); ok {
						pred = "determined"
						predNote = span
						detBase = id.Name
					}
				}
			}
		}
	case ob.Kind == "variant" || ob.Kind == "unwind":
		pred = "hang"
	case ob.Kind == "lemma":
		pred = "lemma"
	case ob.Kind == "post":
		for i, en := range ct.Ensures {
			lab := en.Label
			if lab == "" {
				lab = fmt.Sprintf("e%d", i)
			}
			if lab == ob.Label {
				s, ok := contractToGo(en.X, &olds)
				if ok {
					pred = "post"
					predNote = s
				}
			}
		}
	}
	if pred == "" {
		return "", "", "no executable predicate for obligation kind " + ob.Kind
	}
	if pred == "hang" {
		g.imports["time"] = "time"
	}
	if replayTextUsed {
		g.imports["strings"] = "strings"
		g.imports["strconv"] = "strconv"
	}
	if pred == "conform" {
		g.imports["strings"] = "strings"
	}
	testName := "TestKvcReplay_" + regexp.MustCompile(`[^A-Za-z0-9]`).ReplaceAllString(ob.Name, "_")
	var sb strings.Builder
	sb.WriteString("package " + fn.Pkg.Pkg.Name() + "\n\nimport (\n")
	var imps []string
	for p, n := range g.imports {
		imps = append(imps, fmt.Sprintf("\t%s %q\n", n, p))
	}
	sort.Strings(imps)
	for _, s := range imps {
		sb.WriteString(s)
	}
	sb.WriteString(")\n\n")
	if replayTextUsed {
		sb.WriteString(replayTextHelpers)
	}
	fmt.Fprintf(&sb, "// generated by kvc from the solver model of obligation %s\n", ob.Name)
	if pred == "lemma" {
		sb.WriteString("var kvcLemmaFailed bool\n\n")
	}
	fmt.Fprintf(&sb, "func kvcRun(fill byte) (out string, panicked interface{}) {\n")
	if pred == "lemma" {
		sb.WriteString("\tkvcLemmaFailed = false\n\tverifFailed = func() { kvcLemmaFailed = true }\n")
	}
	sb.WriteString("\tdefer func() { if r := recover(); r != nil { panicked = r } }()\n")
	for _, s := range g.pre {
		for _, l := range strings.Split(strings.TrimSpace(s), "\n") {
			sb.WriteString("\t" + l + "\n")
		}
	}
	for i, n := range names {
		if n == "_" {
			continue
		}
		fmt.Fprintf(&sb, "\t%s := %s\n\t_ = %s\n", n, argExprs[i], n)
	}
	for _, o := range olds {
		sb.WriteString("\t" + o + "\n")
	}
	if pred == "determined" {
		fmt.Fprintf(&sb, "\tfor i := range %s {\n\t\t%s[i] = fill\n\t}\n", detBase, detBase)
	}
	if len(resNames) > 0 {
		fmt.Fprintf(&sb, "\t%s := %s\n", strings.Join(resNames, ", "), call)
		for _, r := range resNames {
			fmt.Fprintf(&sb, "\t_ = %s\n", r)
		}
	} else {
		fmt.Fprintf(&sb, "\t%s\n", call)
	}
	// observable outcome for differential runs: results and the receiver / pointees
	sb.WriteString("\tout = fmt.Sprint(")
	var obs []string
	for i, r := range resNames {
		if types.Identical(res.At(i).Type(), types.Universe.Lookup("error").Type()) {
			obs = append(obs, r+" == nil")
		} else {
			obs = append(obs, fmt.Sprintf("fmt.Sprintf(\"%%#v\", %s)", r))
		}
	}
	for i, p := range fn.Params {
		if _, ok := p.Type().Underlying().(*types.Pointer); ok && names[i] != "_" {
			obs = append(obs, fmt.Sprintf("fmt.Sprintf(\"%%#v\", %s)", names[i]))
		}
	}
	sb.WriteString(strings.Join(obs, ", ") + ")\n")
	if pred == "determined" {
		fmt.Fprintf(&sb, "\tout = fmt.Sprintf(\"%%x\", %s)\n", predNote)
	}
	if pred == "conform" {
		var es []string
		for _, o := range observe {
			es = append(es, o.goExpr)
		}
		fmt.Fprintf(&sb, "\tout = strings.Join([]string{%s}, \" \")\n", strings.Join(es, ", "))
	}
	if pred == "post" {
		fmt.Fprintf(&sb, "\tif !(%s) {\n\t\tout = \"POSTFAIL \" + out\n\t}\n", predNote)
	}
	if pred == "lemma" {
		sb.WriteString("\tif kvcLemmaFailed {\n\t\tout = \"POSTFAIL lemma assertion false \" + out\n\t}\n")
	}
	sb.WriteString("\treturn\n}\n\n")
	fmt.Fprintf(&sb, "func %s(t *testing.T) {\n", testName)
	switch pred {
	case "panic":
		sb.WriteString("\t_, p := kvcRun(0xAA)\n\tif p != nil {\n\t\tfmt.Println(\"KVC-REPLAY: confirmed panic:\", p)\n\t} else {\n\t\tfmt.Println(\"KVC-REPLAY: not-reproduced no panic\")\n\t}\n")
	case "differential":
		sb.WriteString("\to1, p1 := kvcRun(0x00)\n\to2, p2 := kvcRun(0xFF)\n\tif p1 != nil || p2 != nil {\n\t\tfmt.Println(\"KVC-REPLAY: confirmed panic:\", p1, p2)\n\t} else if o1 != o2 {\n\t\tfmt.Println(\"KVC-REPLAY: confirmed result depends on bytes beyond len(data):\", o1, \"vs\", o2)\n\t} else {\n\t\tfmt.Println(\"KVC-REPLAY: not-reproduced identical results\", o1)\n\t}\n")
	case "conform":
		fmt.Fprintf(&sb, "\to, p := kvcRun(0xAA)\n\twant := %q\n\tif p != nil {\n\t\tfmt.Println(\"KVC-REPLAY: confirmed mismatch: the real code panics:\", p)\n\t} else if o != want {\n\t\tfmt.Println(\"KVC-REPLAY: confirmed mismatch: real\", o, \"predicted\", want)\n\t} else {\n\t\tfmt.Println(\"KVC-REPLAY: not-reproduced agreement\", o)\n\t}\n", predNote)
	case "determined":
		sb.WriteString("\to1, p1 := kvcRun(0x00)\n\to2, p2 := kvcRun(0xFF)\n\tif p1 != nil || p2 != nil {\n\t\tfmt.Println(\"KVC-REPLAY: confirmed panic:\", p1, p2)\n\t} else if o1 != o2 {\n\t\tfmt.Println(\"KVC-REPLAY: confirmed the encoding depends on the previous content of the buffer:\", o1, \"vs\", o2)\n\t} else {\n\t\tfmt.Println(\"KVC-REPLAY: not-reproduced identical encodings\", o1)\n\t}\n")
	case "hang":
		sb.WriteString("\tdone := make(chan struct{})\n\tgo func() { kvcRun(0xAA); close(done) }()\n\tselect {\n\tcase <-done:\n\t\tfmt.Println(\"KVC-REPLAY: not-reproduced terminated\")\n\tcase <-time.After(3 * time.Second):\n\t\tfmt.Println(\"KVC-REPLAY: confirmed no termination within 3s\")\n\t}\n")
	case "post", "lemma":
		sb.WriteString("\to, p := kvcRun(0xAA)\n\tif p != nil {\n\t\tfmt.Println(\"KVC-REPLAY: confirmed panic:\", p)\n\t} else if len(o) >= 8 && o[:8] == \"POSTFAIL\" {\n\t\tfmt.Println(\"KVC-REPLAY: confirmed postcondition false:\", o)\n\t} else {\n\t\tfmt.Println(\"KVC-REPLAY: not-reproduced postcondition holds\", o)\n\t}\n")
	}
	sb.WriteString("}\n")
	return sb.String(), testName, ""
}

func runReplayTest(repo string, rf *replayFile) {
	tmp, _ := os.MkdirTemp("", "kvc-ov-")
	defer os.RemoveAll(tmp)
	testFile := filepath.Join(tmp, "zz_kvc_replay_test.go")
	os.WriteFile(testFile, []byte(rf.TestSource), 0o644)
	target := filepath.Join(repo, rf.PkgDir, "zz_kvc_replay_test.go")
	ov, _ := json.Marshal(map[string]interface{}{"Replace": map[string]string{target: testFile}})
	ovFile := filepath.Join(tmp, "ov.json")
	os.WriteFile(ovFile, ov, 0o644)
	ctx, cancel := context.WithTimeout(context.Background(), 120*time.Second)
	defer cancel()
	cmd := exec.CommandContext(ctx, "go", "test", "-tags", "verif", "-overlay", ovFile, "-vet=off", "-count=1", "-timeout", "60s", "-v",
		"-run", "^"+rf.TestName+"$", "./"+rf.PkgDir)
	cmd.Dir = repo
	cmd.Env = append(os.Environ(), "GOFLAGS=-mod=mod", "GOPROXY=off", "GOSUMDB=off", "GOTOOLCHAIN=local")
	var out bytes.Buffer
	cmd.Stdout = &out
	cmd.Stderr = &out
	cmd.Run()
	s := out.String()
	rf.ReplayOut = truncate(s, 6000)
	if mm := goTestRe.FindStringSubmatch(s); mm != nil {
		if mm[1] == "confirmed" {
			rf.Verdict = "confirmed"
		} else {
			rf.Verdict = "not-reproduced"
		}
		return
	}
	if strings.Contains(s, "panic: test timed out") {
		rf.Verdict = "confirmed"
		rf.Note = "the real function did not return within the test timeout"
		return
	}
	if strings.Contains(s, "fatal error:") || strings.Contains(s, "panic:") {
		rf.Verdict = "confirmed"
		rf.Note = "the real function crashed the test binary"
		return
	}
	rf.Verdict = "not-attempted"
	rf.Note = "replay test did not build or run"
}

func cmdReplay(args []string) int {
	if len(args) < 1 {
		usage()
	}
	b, err := os.ReadFile(args[0])
	if err != nil {
		fmt.Println(err)
		return 2
	}
	var rf replayFile
	if err := json.Unmarshal(b, &rf); err != nil {
		fmt.Println(err)
		return 2
	}
	fmt.Printf("obligation %s (%s) in %s at %s\n", rf.Obligation, rf.Kind, rf.Function, rf.Source)
	if rf.TestSource == "" {
		fmt.Println("no replay test recorded:", rf.Note)
		fmt.Println("solver output:", rf.SolverOut)
		return 1
	}
	runReplayTest("/repo", &rf)
	fmt.Println(rf.ReplayOut)
	fmt.Println("verdict:", rf.Verdict)
	if rf.Verdict == "confirmed" {
		return 1
	}
	return 0
}

package main

// Hash-consed SMT term library with local simplification. Bit-vectors up to 64 bits,
// Bool, arrays BV64 -> BVw (only as free base arrays), IEEE floats (32/64).

import (
	"fmt"
	"math/bits"
	"sort"
	"strconv"
	"strings"
)

type Kind uint8

const (
	KBool Kind = iota
	KBV
	KArr // index BV64, element BV W
	KFP  // W = 32 or 64
	KRM  // rounding mode
)

type Sort struct {
	K Kind
	W int
}

func (s Sort) String() string {
	switch s.K {
	case KBool:
		return "Bool"
	case KBV:
		return fmt.Sprintf("(_ BitVec %d)", s.W)
	case KArr:
		return fmt.Sprintf("(Array (_ BitVec 64) (_ BitVec %d))", s.W)
	case KFP:
		if s.W == 32 {
			return "(_ FloatingPoint 8 24)"
		}
		return "(_ FloatingPoint 11 53)"
	}
	return "?"
}

var Bool = Sort{KBool, 0}

func BV(w int) Sort { return Sort{KBV, w} }

type Op uint8

const (
	OConst Op = iota // BV const (C) or Bool const (C=0/1)
	OVar             // free variable (Name)
	OBound           // bound variable (Name)
	ONot
	OAnd
	OOr
	OImp
	OEq
	OIte
	OAdd
	OSub
	OMul
	OUdiv
	OUrem
	OSdiv
	OSrem
	OBvAnd
	OBvOr
	OBvXor
	OBvNot
	OBvNeg
	OShl
	OLshr
	OAshr
	OUlt
	OUle
	OSlt
	OSle
	OExtract // C = hi<<8 | lo
	OConcat
	OZext // to sort width
	OSext
	OSelect
	OForall // Args[0]=bound var, Args[1]=body
	OExists
	OFP    // generic FP op, Name = smt op (with rounding where needed); args FP/BV
	OApply // uninterpreted function application; Name = function symbol
)

type Term struct {
	Op   Op
	Args []*Term
	S    Sort
	C    uint64
	Name string
	id   uint32
	hb   bool // contains bound variable
}

type Ctx struct {
	tab    map[string]*Term
	nextID uint32
	fresh  int
	True   *Term
	False  *Term
	// uninterpreted function declarations: name -> (arg sorts, result sort)
	ufs map[string]ufDecl
	fv  map[*Term][]uint32
}

// freeVars returns the ids of the non-array free variables of t (sorted, memoised).
func (c *Ctx) freeVars(t *Term) []uint32 {
	if r, ok := c.fv[t]; ok {
		return r
	}
	var out []uint32
	if t.Op == OVar {
		if t.S.K != KArr {
			out = []uint32{t.id}
		}
	} else {
		for _, a := range t.Args {
			out = mergeIDs(out, c.freeVars(a))
		}
	}
	c.fv[t] = out
	return out
}

func mergeIDs(a, b []uint32) []uint32 {
	if len(a) == 0 {
		return b
	}
	if len(b) == 0 {
		return a
	}
	out := make([]uint32, 0, len(a)+len(b))
	i, j := 0, 0
	for i < len(a) && j < len(b) {
		switch {
		case a[i] == b[j]:
			out = append(out, a[i])
			i++
			j++
		case a[i] < b[j]:
			out = append(out, a[i])
			i++
		default:
			out = append(out, b[j])
			j++
		}
	}
	out = append(out, a[i:]...)
	out = append(out, b[j:]...)
	return out
}

// relevant keeps the hypotheses connected to the goal through shared variables
// (cone of influence). Dropping hypotheses is sound for an unsat answer.
func (c *Ctx) relevant(hyps []*Term, goal *Term) []*Term {
	seen := map[uint32]bool{}
	for _, v := range c.freeVars(goal) {
		seen[v] = true
	}
	inc := make([]bool, len(hyps))
	dup := map[*Term]bool{}
	changed := true
	for changed {
		changed = false
		for i, h := range hyps {
			if inc[i] {
				continue
			}
			fv := c.freeVars(h)
			hit := len(fv) == 0
			for _, v := range fv {
				if seen[v] {
					hit = true
					break
				}
			}
			if hit {
				inc[i] = true
				changed = true
				for _, v := range fv {
					seen[v] = true
				}
			}
		}
	}
	var out []*Term
	for i, h := range hyps {
		if inc[i] && !dup[h] {
			dup[h] = true
			out = append(out, h)
		}
	}
	return out
}

type ufDecl struct {
	args []Sort
	res  Sort
}

func NewCtx() *Ctx {
	c := &Ctx{tab: map[string]*Term{}, ufs: map[string]ufDecl{}, fv: map[*Term][]uint32{}}
	c.True = c.mk(OConst, Bool, 1, "", nil)
	c.False = c.mk(OConst, Bool, 0, "", nil)
	return c
}

func (c *Ctx) mk(op Op, s Sort, cv uint64, name string, args []*Term) *Term {
	var sb strings.Builder
	sb.WriteByte(byte(op))
	sb.WriteByte(byte(s.K))
	sb.WriteString(strconv.Itoa(s.W))
	sb.WriteByte(':')
	sb.WriteString(strconv.FormatUint(cv, 16))
	sb.WriteByte(':')
	sb.WriteString(name)
	for _, a := range args {
		sb.WriteByte(',')
		sb.WriteString(strconv.FormatUint(uint64(a.id), 36))
	}
	k := sb.String()
	if t, ok := c.tab[k]; ok {
		return t
	}
	c.nextID++
	t := &Term{Op: op, Args: args, S: s, C: cv, Name: name, id: c.nextID}
	if op == OBound {
		t.hb = true
	}
	for _, a := range args {
		if a.hb {
			t.hb = true
		}
	}
	c.tab[k] = t
	return t
}

func mask(w int) uint64 {
	if w >= 64 {
		return ^uint64(0)
	}
	return (uint64(1) << uint(w)) - 1
}

func (t *Term) IsConst() bool { return t.Op == OConst }
func (t *Term) IsTrue() bool  { return t.Op == OConst && t.S.K == KBool && t.C == 1 }
func (t *Term) IsFalse() bool { return t.Op == OConst && t.S.K == KBool && t.C == 0 }

func (c *Ctx) Const(w int, v uint64) *Term { return c.mk(OConst, BV(w), v&mask(w), "", nil) }
func (c *Ctx) BoolC(b bool) *Term {
	if b {
		return c.True
	}
	return c.False
}
func (c *Ctx) Var(name string, s Sort) *Term { return c.mk(OVar, s, 0, name, nil) }
func (c *Ctx) Fresh(prefix string, s Sort) *Term {
	c.fresh++
	return c.mk(OVar, s, 0, fmt.Sprintf("%s!%d", prefix, c.fresh), nil)
}
func (c *Ctx) Bound(prefix string, s Sort) *Term {
	c.fresh++
	return c.mk(OBound, s, 0, fmt.Sprintf("%s?%d", prefix, c.fresh), nil)
}

func signed(v uint64, w int) int64 {
	if w >= 64 {
		return int64(v)
	}
	if v&(1<<uint(w-1)) != 0 {
		return int64(v | ^mask(w))
	}
	return int64(v)
}

// ---------- boolean ----------

func (c *Ctx) Not(a *Term) *Term {
	if a.IsConst() {
		return c.BoolC(a.C == 0)
	}
	if a.Op == ONot {
		return a.Args[0]
	}
	return c.mk(ONot, Bool, 0, "", []*Term{a})
}

func (c *Ctx) And(xs ...*Term) *Term {
	var out []*Term
	seen := map[uint32]bool{}
	for _, x := range xs {
		if x.IsTrue() {
			continue
		}
		if x.IsFalse() {
			return c.False
		}
		if x.Op == OAnd {
			for _, y := range x.Args {
				if !seen[y.id] {
					seen[y.id] = true
					out = append(out, y)
				}
			}
			continue
		}
		if !seen[x.id] {
			seen[x.id] = true
			out = append(out, x)
		}
	}
	for _, x := range out {
		if x.Op == ONot && seen[x.Args[0].id] {
			return c.False
		}
	}
	if len(out) == 0 {
		return c.True
	}
	if len(out) == 1 {
		return out[0]
	}
	return c.mk(OAnd, Bool, 0, "", out)
}

func (c *Ctx) Or(xs ...*Term) *Term {
	var out []*Term
	seen := map[uint32]bool{}
	for _, x := range xs {
		if x.IsFalse() {
			continue
		}
		if x.IsTrue() {
			return c.True
		}
		if x.Op == OOr {
			for _, y := range x.Args {
				if !seen[y.id] {
					seen[y.id] = true
					out = append(out, y)
				}
			}
			continue
		}
		if !seen[x.id] {
			seen[x.id] = true
			out = append(out, x)
		}
	}
	for _, x := range out {
		if x.Op == ONot && seen[x.Args[0].id] {
			return c.True
		}
	}
	if len(out) == 0 {
		return c.False
	}
	if len(out) == 1 {
		return out[0]
	}
	return c.mk(OOr, Bool, 0, "", out)
}

func (c *Ctx) Imp(a, b *Term) *Term {
	if a.IsTrue() {
		return b
	}
	if a.IsFalse() || b.IsTrue() {
		return c.True
	}
	if b.IsFalse() {
		return c.Not(a)
	}
	if a == b {
		return c.True
	}
	return c.mk(OImp, Bool, 0, "", []*Term{a, b})
}

func (c *Ctx) Iff(a, b *Term) *Term { return c.Eq(a, b) }

func (c *Ctx) Eq(a, b *Term) *Term {
	if a.S != b.S {
		panic(fmt.Sprintf("Eq sort mismatch %v %v (%s vs %s)", a.S, b.S, c.Show(a), c.Show(b)))
	}
	if a == b {
		return c.True
	}
	if a.IsConst() && b.IsConst() {
		return c.BoolC(a.C == b.C)
	}
	if a.S.K == KBool {
		if a.IsConst() {
			a, b = b, a
		}
		if b.IsTrue() {
			return a
		}
		if b.IsFalse() {
			return c.Not(a)
		}
	}
	if a.S.K == KBV {
		// (x + c1) == (x + c2)
		ab, ac := splitAdd(a)
		bb, bc := splitAdd(b)
		if ab == bb && ab != nil {
			return c.BoolC(ac == bc)
		}
		// ite(c, k1, k2) == k  with constants
		if b.IsConst() && a.Op == OIte && a.Args[1].IsConst() && a.Args[2].IsConst() {
			t1 := a.Args[1].C == b.C
			t2 := a.Args[2].C == b.C
			switch {
			case t1 && t2:
				return c.True
			case t1:
				return a.Args[0]
			case t2:
				return c.Not(a.Args[0])
			default:
				return c.False
			}
		}
		if a.IsConst() && b.Op == OIte && b.Args[1].IsConst() && b.Args[2].IsConst() {
			return c.Eq(b, a)
		}
		// zext(x) == const
		if b.IsConst() && a.Op == OZext {
			iw := a.Args[0].S.W
			if b.C&^mask(iw) != 0 {
				return c.False
			}
			return c.Eq(a.Args[0], c.Const(iw, b.C))
		}
		if a.IsConst() && b.Op == OZext {
			return c.Eq(b, a)
		}
	}
	if a.id > b.id {
		a, b = b, a
	}
	return c.mk(OEq, Bool, 0, "", []*Term{a, b})
}

func (c *Ctx) Ne(a, b *Term) *Term { return c.Not(c.Eq(a, b)) }

func (c *Ctx) Ite(cond, a, b *Term) *Term {
	if a.S != b.S {
		panic(fmt.Sprintf("Ite sort mismatch %v %v", a.S, b.S))
	}
	if cond.IsTrue() {
		return a
	}
	if cond.IsFalse() {
		return b
	}
	if a == b {
		return a
	}
	if a.S.K == KBool {
		if a.IsTrue() && b.IsFalse() {
			return cond
		}
		if a.IsFalse() && b.IsTrue() {
			return c.Not(cond)
		}
		if a.IsTrue() {
			return c.Or(cond, b)
		}
		if b.IsFalse() {
			return c.And(cond, a)
		}
		if a.IsFalse() {
			return c.And(c.Not(cond), b)
		}
		if b.IsTrue() {
			return c.Or(c.Not(cond), a)
		}
	}
	if cond.Op == ONot {
		return c.mk(OIte, a.S, 0, "", []*Term{cond.Args[0], b, a})
	}
	return c.mk(OIte, a.S, 0, "", []*Term{cond, a, b})
}

// ---------- bit-vector arithmetic ----------

// splitAdd decomposes t as base + const (base nil if t is const).
func splitAdd(t *Term) (*Term, uint64) {
	if t.Op == OConst {
		return nil, t.C
	}
	if t.Op == OAdd && t.Args[1].Op == OConst {
		return t.Args[0], t.Args[1].C
	}
	return t, 0
}

func (c *Ctx) Add(a, b *Term) *Term {
	w := a.S.W
	if a.S != b.S {
		panic(fmt.Sprintf("Add sort mismatch %v %v", a.S, b.S))
	}
	ab, ac := splitAdd(a)
	bb, bc := splitAdd(b)
	k := (ac + bc) & mask(w)
	var base *Term
	switch {
	case ab == nil && bb == nil:
		return c.Const(w, k)
	case ab == nil:
		base = bb
	case bb == nil:
		base = ab
	default:
		base = c.mk(OAdd, a.S, 0, "", []*Term{ab, bb})
	}
	if k == 0 {
		return base
	}
	return c.mk(OAdd, a.S, 0, "", []*Term{base, c.Const(w, k)})
}

func (c *Ctx) Neg(a *Term) *Term {
	if a.IsConst() {
		return c.Const(a.S.W, -a.C)
	}
	return c.mk(OBvNeg, a.S, 0, "", []*Term{a})
}

func (c *Ctx) Sub(a, b *Term) *Term {
	w := a.S.W
	if a.S != b.S {
		panic("Sub sort mismatch")
	}
	if a == b {
		return c.Const(w, 0)
	}
	ab, ac := splitAdd(a)
	bb, bc := splitAdd(b)
	k := (ac - bc) & mask(w)
	if bb == nil {
		if ab == nil {
			return c.Const(w, k)
		}
		if k == 0 {
			return ab
		}
		return c.mk(OAdd, a.S, 0, "", []*Term{ab, c.Const(w, k)})
	}
	if ab == bb {
		return c.Const(w, k)
	}
	// (r + x) - r  => x ; (r + x) - (r + y) => x - y
	if ab != nil && ab.Op == OAdd {
		if ab.Args[0] == bb {
			return c.Add(ab.Args[1], c.Const(w, k))
		}
		if bb.Op == OAdd && ab.Args[0] == bb.Args[0] {
			return c.Add(c.Sub(ab.Args[1], bb.Args[1]), c.Const(w, k))
		}
	}
	var base *Term
	if ab == nil {
		base = c.mk(OBvNeg, a.S, 0, "", []*Term{bb})
	} else {
		base = c.mk(OSub, a.S, 0, "", []*Term{ab, bb})
	}
	if k == 0 {
		return base
	}
	return c.mk(OAdd, a.S, 0, "", []*Term{base, c.Const(w, k)})
}

func (c *Ctx) Mul(a, b *Term) *Term {
	w := a.S.W
	if a.IsConst() && b.IsConst() {
		return c.Const(w, a.C*b.C)
	}
	if a.IsConst() {
		a, b = b, a
	}
	if b.IsConst() {
		if b.C == 0 {
			return b
		}
		if b.C == 1 {
			return a
		}
	}
	return c.mk(OMul, a.S, 0, "", []*Term{a, b})
}

func (c *Ctx) bin(op Op, a, b *Term) *Term {
	if a.S != b.S {
		panic(fmt.Sprintf("bin op %d sort mismatch %v %v", op, a.S, b.S))
	}
	w := a.S.W
	if a.IsConst() && b.IsConst() {
		x, y := a.C, b.C
		switch op {
		case OUdiv:
			if y == 0 {
				return c.Const(w, mask(w))
			}
			return c.Const(w, x/y)
		case OUrem:
			if y == 0 {
				return c.Const(w, x)
			}
			return c.Const(w, x%y)
		case OSdiv:
			if y != 0 {
				sx, sy := signed(x, w), signed(y, w)
				if !(sx == -1<<63 && sy == -1) {
					return c.Const(w, uint64(sx/sy))
				}
				return c.Const(w, x)
			}
		case OSrem:
			if y != 0 {
				sx, sy := signed(x, w), signed(y, w)
				if sy == -1 {
					return c.Const(w, 0)
				}
				return c.Const(w, uint64(sx%sy))
			}
		case OBvAnd:
			return c.Const(w, x&y)
		case OBvOr:
			return c.Const(w, x|y)
		case OBvXor:
			return c.Const(w, x^y)
		case OShl:
			if y >= uint64(w) {
				return c.Const(w, 0)
			}
			return c.Const(w, x<<y)
		case OLshr:
			if y >= uint64(w) {
				return c.Const(w, 0)
			}
			return c.Const(w, x>>y)
		case OAshr:
			sx := signed(x, w)
			if y >= uint64(w) {
				y = uint64(w - 1)
			}
			return c.Const(w, uint64(sx>>y))
		}
	}
	switch op {
	case OBvAnd:
		if a == b {
			return a
		}
		if a.IsConst() {
			a, b = b, a
		}
		if b.IsConst() {
			if b.C == 0 {
				return b
			}
			if b.C == mask(w) {
				return a
			}
			// zext(x) & m  where m covers all of x's bits
			if a.Op == OZext && mask(a.Args[0].S.W)&^b.C == 0 {
				return a
			}
			if a.Op == OBvAnd && a.Args[1].IsConst() {
				return c.bin(OBvAnd, a.Args[0], c.Const(w, a.Args[1].C&b.C))
			}
		}
	case OBvOr:
		if a == b {
			return a
		}
		if a.IsConst() {
			a, b = b, a
		}
		if b.IsConst() {
			if b.C == 0 {
				return a
			}
			if b.C == mask(w) {
				return b
			}
		}
	case OBvXor:
		if a == b {
			return c.Const(w, 0)
		}
		if a.IsConst() {
			a, b = b, a
		}
		if b.IsConst() && b.C == 0 {
			return a
		}
	case OShl, OLshr, OAshr:
		if b.IsConst() && b.C == 0 {
			return a
		}
		if b.IsConst() && b.C >= uint64(w) && op != OAshr {
			return c.Const(w, 0)
		}
		if a.IsConst() && a.C == 0 {
			return a
		}
	case OUdiv:
		if b.IsConst() && b.C == 1 {
			return a
		}
	}
	return c.mk(op, a.S, 0, "", []*Term{a, b})
}

func (c *Ctx) BvAnd(a, b *Term) *Term { return c.bin(OBvAnd, a, b) }
func (c *Ctx) BvOr(a, b *Term) *Term  { return c.bin(OBvOr, a, b) }
func (c *Ctx) BvXor(a, b *Term) *Term { return c.bin(OBvXor, a, b) }
func (c *Ctx) Shl(a, b *Term) *Term   { return c.bin(OShl, a, b) }
func (c *Ctx) Lshr(a, b *Term) *Term  { return c.bin(OLshr, a, b) }
func (c *Ctx) Ashr(a, b *Term) *Term  { return c.bin(OAshr, a, b) }
func (c *Ctx) Udiv(a, b *Term) *Term  { return c.bin(OUdiv, a, b) }
func (c *Ctx) Urem(a, b *Term) *Term  { return c.bin(OUrem, a, b) }
func (c *Ctx) Sdiv(a, b *Term) *Term  { return c.bin(OSdiv, a, b) }
func (c *Ctx) Srem(a, b *Term) *Term  { return c.bin(OSrem, a, b) }

func (c *Ctx) BvNot(a *Term) *Term {
	if a.IsConst() {
		return c.Const(a.S.W, ^a.C)
	}
	if a.Op == OBvNot {
		return a.Args[0]
	}
	return c.mk(OBvNot, a.S, 0, "", []*Term{a})
}

// umax returns a cheap syntactic upper bound for an unsigned bv term.
func umax(t *Term) uint64 {
	w := t.S.W
	switch t.Op {
	case OConst:
		return t.C
	case OZext:
		return umax(t.Args[0])
	case OBvAnd:
		a, b := umax(t.Args[0]), umax(t.Args[1])
		if a < b {
			return a
		}
		return b
	case OIte:
		a, b := umax(t.Args[1]), umax(t.Args[2])
		if a > b {
			return a
		}
		return b
	case OLshr:
		if t.Args[1].IsConst() && t.Args[1].C < 64 {
			return umax(t.Args[0]) >> t.Args[1].C
		}
	case OAdd:
		a, b := umax(t.Args[0]), umax(t.Args[1])
		s, carry := bits.Add64(a, b, 0)
		if carry == 0 && s <= mask(w) {
			return s
		}
	case OBvOr, OBvXor:
		a, b := umax(t.Args[0]), umax(t.Args[1])
		m := a | b
		// round up to all-ones below the top bit
		if m == 0 {
			return 0
		}
		return mask(bits.Len64(m))
	}
	return mask(w)
}

func (c *Ctx) cmp(op Op, a, b *Term) *Term {
	if a.S != b.S {
		panic(fmt.Sprintf("cmp sort mismatch %v %v: %s / %s", a.S, b.S, c.Show(a), c.Show(b)))
	}
	w := a.S.W
	if a.IsConst() && b.IsConst() {
		switch op {
		case OUlt:
			return c.BoolC(a.C < b.C)
		case OUle:
			return c.BoolC(a.C <= b.C)
		case OSlt:
			return c.BoolC(signed(a.C, w) < signed(b.C, w))
		case OSle:
			return c.BoolC(signed(a.C, w) <= signed(b.C, w))
		}
	}
	if a == b {
		return c.BoolC(op == OUle || op == OSle)
	}
	switch op {
	case OUlt:
		if b.IsConst() && b.C == 0 {
			return c.False
		}
		if b.IsConst() && umax(a) < b.C {
			return c.True
		}
		if a.IsConst() && a.C == mask(w) {
			return c.False
		}
		if a.IsConst() && a.C >= umax(b) {
			return c.False
		}
	case OUle:
		if a.IsConst() && a.C == 0 {
			return c.True
		}
		if b.IsConst() && umax(a) <= b.C {
			return c.True
		}
		if b.IsConst() && b.C == mask(w) {
			return c.True
		}
		if a.IsConst() && a.C > umax(b) {
			return c.False
		}
	case OSlt, OSle:
		// both provably non-negative: use unsigned reasoning
		top := uint64(1) << uint(w-1)
		if umax(a) < top && umax(b) < top {
			if op == OSlt {
				return c.cmp(OUlt, a, b)
			}
			return c.cmp(OUle, a, b)
		}
	}
	// same base + constants, no wrap knowledge: leave
	return c.mk(op, Bool, 0, "", []*Term{a, b})
}

func (c *Ctx) Ult(a, b *Term) *Term { return c.cmp(OUlt, a, b) }
func (c *Ctx) Ule(a, b *Term) *Term { return c.cmp(OUle, a, b) }
func (c *Ctx) Slt(a, b *Term) *Term { return c.cmp(OSlt, a, b) }
func (c *Ctx) Sle(a, b *Term) *Term { return c.cmp(OSle, a, b) }
func (c *Ctx) Ugt(a, b *Term) *Term { return c.cmp(OUlt, b, a) }
func (c *Ctx) Uge(a, b *Term) *Term { return c.cmp(OUle, b, a) }
func (c *Ctx) Sgt(a, b *Term) *Term { return c.cmp(OSlt, b, a) }
func (c *Ctx) Sge(a, b *Term) *Term { return c.cmp(OSle, b, a) }

func (c *Ctx) Extract(hi, lo int, a *Term) *Term {
	w := hi - lo + 1
	if lo == 0 && w == a.S.W {
		return a
	}
	if a.IsConst() {
		return c.Const(w, a.C>>uint(lo))
	}
	if a.Op == OZext || a.Op == OSext {
		iw := a.Args[0].S.W
		if hi < iw {
			return c.Extract(hi, lo, a.Args[0])
		}
		if a.Op == OZext && lo >= iw {
			return c.Const(w, 0)
		}
		if a.Op == OZext && lo == 0 {
			return c.Zext(a.Args[0], w)
		}
	}
	if a.Op == OExtract {
		ilo := int(a.C & 0xff)
		return c.Extract(hi+ilo, lo+ilo, a.Args[0])
	}
	if a.Op == OConcat {
		lw := a.Args[1].S.W
		if hi < lw {
			return c.Extract(hi, lo, a.Args[1])
		}
		if lo >= lw {
			return c.Extract(hi-lw, lo-lw, a.Args[0])
		}
	}
	if lo == 0 {
		// low bits distribute over and/or/xor/add of extended operands
		switch a.Op {
		case OBvAnd, OBvOr, OBvXor:
			return c.bin(a.Op, c.Extract(hi, 0, a.Args[0]), c.Extract(hi, 0, a.Args[1]))
		case OAdd:
			return c.Add(c.Extract(hi, 0, a.Args[0]), c.Extract(hi, 0, a.Args[1]))
		case OIte:
			return c.Ite(a.Args[0], c.Extract(hi, 0, a.Args[1]), c.Extract(hi, 0, a.Args[2]))
		}
	}
	return c.mk(OExtract, BV(w), uint64(hi)<<8|uint64(lo), "", []*Term{a})
}

func (c *Ctx) Concat(a, b *Term) *Term {
	if a.IsConst() && b.IsConst() {
		return c.Const(a.S.W+b.S.W, a.C<<uint(b.S.W)|b.C)
	}
	return c.mk(OConcat, BV(a.S.W+b.S.W), 0, "", []*Term{a, b})
}

func (c *Ctx) Zext(a *Term, w int) *Term {
	if a.S.W == w {
		return a
	}
	if a.S.W > w {
		return c.Extract(w-1, 0, a)
	}
	if a.IsConst() {
		return c.Const(w, a.C)
	}
	if a.Op == OZext {
		return c.Zext(a.Args[0], w)
	}
	if a.Op == OIte && a.Args[1].IsConst() && a.Args[2].IsConst() {
		return c.Ite(a.Args[0], c.Zext(a.Args[1], w), c.Zext(a.Args[2], w))
	}
	return c.mk(OZext, BV(w), 0, "", []*Term{a})
}

func (c *Ctx) Sext(a *Term, w int) *Term {
	if a.S.W == w {
		return a
	}
	if a.S.W > w {
		return c.Extract(w-1, 0, a)
	}
	if a.IsConst() {
		return c.Const(w, uint64(signed(a.C, a.S.W)))
	}
	if umax(a) < uint64(1)<<uint(a.S.W-1) {
		return c.Zext(a, w)
	}
	return c.mk(OSext, BV(w), 0, "", []*Term{a})
}

func (c *Ctx) Select(arr, idx *Term) *Term {
	return c.mk(OSelect, BV(arr.S.W), 0, "", []*Term{arr, idx})
}

func (c *Ctx) Forall(v, body *Term) *Term {
	if body.IsConst() {
		return body
	}
	if !body.hb {
		return body
	}
	t := c.mk(OForall, Bool, 0, "", []*Term{v, body})
	t.hb = c.hasOtherBound(body, v)
	return t
}

func (c *Ctx) Exists(v, body *Term) *Term {
	if body.IsConst() {
		return body
	}
	t := c.mk(OExists, Bool, 0, "", []*Term{v, body})
	t.hb = c.hasOtherBound(body, v)
	return t
}

func (c *Ctx) hasOtherBound(t, v *Term) bool {
	seen := map[uint32]bool{}
	var rec func(t *Term) bool
	rec = func(t *Term) bool {
		if !t.hb || seen[t.id] {
			return false
		}
		seen[t.id] = true
		if t.Op == OBound {
			return t != v
		}
		if t.Op == OForall || t.Op == OExists {
			// inner quantifier: its own variable is not free
			inner := t.Args[0]
			return c.hasOtherBound2(t.Args[1], v, inner)
		}
		for _, a := range t.Args {
			if rec(a) {
				return true
			}
		}
		return false
	}
	return rec(t)
}

func (c *Ctx) hasOtherBound2(t, v1, v2 *Term) bool {
	if !t.hb {
		return false
	}
	if t.Op == OBound {
		return t != v1 && t != v2
	}
	for _, a := range t.Args {
		if c.hasOtherBound2(a, v1, v2) {
			return true
		}
	}
	return false
}

func (c *Ctx) Apply(name string, res Sort, args ...*Term) *Term {
	if _, ok := c.ufs[name]; !ok {
		d := ufDecl{res: res}
		for _, a := range args {
			d.args = append(d.args, a.S)
		}
		c.ufs[name] = d
	}
	return c.mk(OApply, res, 0, name, args)
}

// FPop builds a floating-point-theory term. name is the SMT-LIB head, e.g. "fp.add RNE".
func (c *Ctx) FPop(name string, res Sort, args ...*Term) *Term {
	return c.mk(OFP, res, 0, name, args)
}

// Subst replaces free occurrences (by pointer) according to m.
func (c *Ctx) Subst(t *Term, m map[*Term]*Term) *Term {
	memo := map[*Term]*Term{}
	var rec func(t *Term) *Term
	rec = func(t *Term) *Term {
		if r, ok := m[t]; ok {
			return r
		}
		if len(t.Args) == 0 {
			return t
		}
		if r, ok := memo[t]; ok {
			return r
		}
		args := make([]*Term, len(t.Args))
		ch := false
		for i, a := range t.Args {
			args[i] = rec(a)
			if args[i] != a {
				ch = true
			}
		}
		r := t
		if ch {
			r = c.rebuild(t, args)
		}
		memo[t] = r
		return r
	}
	return rec(t)
}

func (c *Ctx) rebuild(t *Term, a []*Term) *Term {
	switch t.Op {
	case ONot:
		return c.Not(a[0])
	case OAnd:
		return c.And(a...)
	case OOr:
		return c.Or(a...)
	case OImp:
		return c.Imp(a[0], a[1])
	case OEq:
		return c.Eq(a[0], a[1])
	case OIte:
		return c.Ite(a[0], a[1], a[2])
	case OAdd:
		return c.Add(a[0], a[1])
	case OSub:
		return c.Sub(a[0], a[1])
	case OMul:
		return c.Mul(a[0], a[1])
	case OUdiv, OUrem, OSdiv, OSrem, OBvAnd, OBvOr, OBvXor, OShl, OLshr, OAshr:
		return c.bin(t.Op, a[0], a[1])
	case OBvNot:
		return c.BvNot(a[0])
	case OBvNeg:
		return c.Neg(a[0])
	case OUlt, OUle, OSlt, OSle:
		return c.cmp(t.Op, a[0], a[1])
	case OExtract:
		return c.Extract(int(t.C>>8), int(t.C&0xff), a[0])
	case OConcat:
		return c.Concat(a[0], a[1])
	case OZext:
		return c.Zext(a[0], t.S.W)
	case OSext:
		return c.Sext(a[0], t.S.W)
	case OSelect:
		return c.Select(a[0], a[1])
	case OForall:
		return c.Forall(a[0], a[1])
	case OExists:
		return c.Exists(a[0], a[1])
	case OFP:
		return c.FPop(t.Name, t.S, a...)
	case OApply:
		return c.mk(OApply, t.S, 0, t.Name, a)
	}
	panic("rebuild: unknown op")
}

// ---------- printing ----------

func bvLit(w int, v uint64) string {
	if w%4 == 0 {
		return fmt.Sprintf("#x%0*x", w/4, v&mask(w))
	}
	return fmt.Sprintf("#b%0*b", w, v&mask(w))
}

var opNames = map[Op]string{
	ONot: "not", OAnd: "and", OOr: "or", OImp: "=>", OEq: "=", OIte: "ite",
	OAdd: "bvadd", OSub: "bvsub", OMul: "bvmul", OUdiv: "bvudiv", OUrem: "bvurem",
	OSdiv: "bvsdiv", OSrem: "bvsrem", OBvAnd: "bvand", OBvOr: "bvor", OBvXor: "bvxor",
	OBvNot: "bvnot", OBvNeg: "bvneg", OShl: "bvshl", OLshr: "bvlshr", OAshr: "bvashr",
	OUlt: "bvult", OUle: "bvule", OSlt: "bvslt", OSle: "bvsle", OConcat: "concat", OSelect: "select",
}

func smtName(n string) string { return "|" + n + "|" }

type printer struct {
	c     *Ctx
	refs  map[*Term]int
	named map[*Term]string
	defs  []string
	vars  map[string]Sort
	order []*Term
}

func (p *printer) count(t *Term) {
	p.refs[t]++
	if p.refs[t] > 1 {
		return
	}
	for _, a := range t.Args {
		p.count(a)
	}
}

func (p *printer) str(t *Term, top bool) string {
	if !top {
		if n, ok := p.named[t]; ok {
			return n
		}
	}
	switch t.Op {
	case OConst:
		if t.S.K == KBool {
			if t.C == 1 {
				return "true"
			}
			return "false"
		}
		return bvLit(t.S.W, t.C)
	case OVar:
		p.vars[t.Name] = t.S
		return smtName(t.Name)
	case OBound:
		return smtName(t.Name)
	case OExtract:
		return fmt.Sprintf("((_ extract %d %d) %s)", t.C>>8, t.C&0xff, p.str(t.Args[0], false))
	case OZext:
		return fmt.Sprintf("((_ zero_extend %d) %s)", t.S.W-t.Args[0].S.W, p.str(t.Args[0], false))
	case OSext:
		return fmt.Sprintf("((_ sign_extend %d) %s)", t.S.W-t.Args[0].S.W, p.str(t.Args[0], false))
	case OForall, OExists:
		q := "forall"
		if t.Op == OExists {
			q = "exists"
		}
		v := t.Args[0]
		return fmt.Sprintf("(%s ((%s %s)) %s)", q, smtName(v.Name), v.S, p.str(t.Args[1], false))
	case OFP, OApply:
		var sb strings.Builder
		if len(t.Args) == 0 {
			if t.Op == OApply {
				return smtName(t.Name)
			}
			return t.Name
		}
		sb.WriteByte('(')
		if t.Op == OApply {
			sb.WriteString(smtName(t.Name))
		} else {
			sb.WriteString(t.Name)
		}
		for _, a := range t.Args {
			sb.WriteByte(' ')
			sb.WriteString(p.str(a, false))
		}
		sb.WriteByte(')')
		return sb.String()
	}
	name, ok := opNames[t.Op]
	if !ok {
		panic(fmt.Sprintf("print: op %d", t.Op))
	}
	var sb strings.Builder
	sb.WriteByte('(')
	sb.WriteString(name)
	for _, a := range t.Args {
		sb.WriteByte(' ')
		sb.WriteString(p.str(a, false))
	}
	sb.WriteByte(')')
	return sb.String()
}

// define emits define-funs for shared closed subterms in dependency order.
func (p *printer) define(t *Term, done map[*Term]bool) {
	if done[t] {
		return
	}
	done[t] = true
	for _, a := range t.Args {
		p.define(a, done)
	}
	if len(t.Args) > 0 && p.refs[t] > 1 && !t.hb {
		s := p.str(t, true)
		n := fmt.Sprintf("t%d", t.id)
		p.defs = append(p.defs, fmt.Sprintf("(define-fun %s () %s %s)", n, t.S, s))
		p.named[t] = n
	}
}

// Script renders a complete SMT-LIB script asserting all of asserts.
func (c *Ctx) Script(asserts []*Term, wantModel bool) string {
	p := &printer{c: c, refs: map[*Term]int{}, named: map[*Term]string{}, vars: map[string]Sort{}}
	for _, a := range asserts {
		p.count(a)
	}
	done := map[*Term]bool{}
	var lines []string
	for _, a := range asserts {
		p.define(a, done)
		lines = append(lines, fmt.Sprintf("(assert %s)", p.str(a, false)))
	}
	var sb strings.Builder
	if wantModel {
		sb.WriteString("(set-option :produce-models true)\n")
	}
	sb.WriteString("(set-logic ALL)\n")
	var names []string
	for n := range p.vars {
		names = append(names, n)
	}
	sort.Strings(names)
	for _, n := range names {
		fmt.Fprintf(&sb, "(declare-fun %s () %s)\n", smtName(n), p.vars[n])
	}
	var ufn []string
	for n := range c.ufs {
		ufn = append(ufn, n)
	}
	sort.Strings(ufn)
	for _, n := range ufn {
		d := c.ufs[n]
		var as []string
		for _, s := range d.args {
			as = append(as, s.String())
		}
		fmt.Fprintf(&sb, "(declare-fun %s (%s) %s)\n", smtName(n), strings.Join(as, " "), d.res)
	}
	for _, d := range p.defs {
		sb.WriteString(d)
		sb.WriteByte('\n')
	}
	for _, l := range lines {
		sb.WriteString(l)
		sb.WriteByte('\n')
	}
	sb.WriteString("(check-sat)\n")
	if wantModel {
		// scalars only; arrays are requested on demand through get-value
		var sc []string
		for _, n := range names {
			if p.vars[n].K != KArr {
				sc = append(sc, smtName(n))
			}
		}
		if len(sc) > 0 {
			fmt.Fprintf(&sb, "(get-value (%s))\n", strings.Join(sc, " "))
		}
	}
	return sb.String()
}

// Show renders a term for diagnostics (tree form, bounded output).
func (c *Ctx) Show(t *Term) string {
	var sb strings.Builder
	c.show(&sb, t, 400)
	s := sb.String()
	if len(s) > 400 {
		s = s[:400] + "…"
	}
	return s
}

func (c *Ctx) show(sb *strings.Builder, t *Term, limit int) {
	if sb.Len() > limit {
		return
	}
	switch t.Op {
	case OConst:
		if t.S.K == KBool {
			if t.C == 1 {
				sb.WriteString("true")
			} else {
				sb.WriteString("false")
			}
			return
		}
		sb.WriteString(bvLit(t.S.W, t.C))
		return
	case OVar, OBound:
		sb.WriteString(smtName(t.Name))
		return
	}
	sb.WriteByte('(')
	switch t.Op {
	case OExtract:
		fmt.Fprintf(sb, "(_ extract %d %d)", t.C>>8, t.C&0xff)
	case OZext:
		fmt.Fprintf(sb, "(_ zero_extend %d)", t.S.W-t.Args[0].S.W)
	case OSext:
		fmt.Fprintf(sb, "(_ sign_extend %d)", t.S.W-t.Args[0].S.W)
	case OForall:
		sb.WriteString("forall")
	case OExists:
		sb.WriteString("exists")
	case OFP, OApply:
		sb.WriteString(t.Name)
	default:
		sb.WriteString(opNames[t.Op])
	}
	for _, a := range t.Args {
		if sb.Len() > limit {
			break
		}
		sb.WriteByte(' ')
		c.show(sb, a, limit)
	}
	sb.WriteByte(')')
}

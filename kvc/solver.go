package main

import (
	"bytes"
	"context"
	"fmt"
	"os"
	"os/exec"
	"path/filepath"
	"regexp"
	"strings"
	"sync"
	"sync/atomic"
	"time"
)

type solverSpec struct {
	name string
	bin  string
	args func(timeoutS int) []string
}

var solvers = []solverSpec{
	{"z3-new", "z3-new", func(t int) []string { return []string{fmt.Sprintf("-T:%d", t), "-smt2"} }},
	{"z3", "/usr/bin/z3", func(t int) []string { return []string{fmt.Sprintf("-T:%d", t), "-smt2"} }},
	{"cvc5", "cvc5", func(t int) []string {
		return []string{fmt.Sprintf("--tlimit=%d", t*1000), "--lang=smt2", "--produce-models"}
	}},
}

type solveResult struct {
	res    string // sat unsat unknown timeout error
	solver string
	ms     int64
	out    string
}

func runSolver(sp solverSpec, file string, timeoutS int) solveResult {
	return runSolverCtx(context.Background(), sp, file, timeoutS)
}

// raceSolvers runs the given solvers side by side and returns the first decisive answer
// (the others are killed); if none is decisive, the last non-answer.
func raceSolvers(sps []solverSpec, file string, timeoutS int) (solveResult, int64) {
	ctx, cancel := context.WithCancel(context.Background())
	defer cancel()
	ch := make(chan solveResult, len(sps))
	for _, sp := range sps {
		go func(sp solverSpec) { ch <- runSolverCtx(ctx, sp, file, timeoutS) }(sp)
	}
	var last solveResult
	var ms int64
	for range sps {
		a := <-ch
		ms += a.ms
		if a.res == "sat" || a.res == "unsat" {
			return a, ms
		}
		last = a
	}
	return last, ms
}

func runSolverCtx(parent context.Context, sp solverSpec, file string, timeoutS int) solveResult {
	ctx, cancel := context.WithTimeout(parent, time.Duration(timeoutS+2)*time.Second)
	defer cancel()
	t0 := time.Now()
	cmd := exec.CommandContext(ctx, sp.bin, append(sp.args(timeoutS), file)...)
	var out bytes.Buffer
	cmd.Stdout = &out
	cmd.Stderr = &out
	_ = cmd.Run()
	ms := time.Since(t0).Milliseconds()
	s := out.String()
	first := strings.TrimSpace(strings.SplitN(s, "\n", 2)[0])
	r := solveResult{solver: sp.name, ms: ms, out: s}
	switch first {
	case "sat", "unsat", "unknown":
		r.res = first
	case "timeout":
		r.res = "timeout"
	default:
		if ctx.Err() != nil {
			r.res = "timeout"
		} else {
			r.res = "error"
		}
	}
	return r
}

var solverSeconds int64 // accumulated ms
var solverWins sync.Map

// discharge decides one obligation. want is "unsat" for proof goals, "sat" for covers.
func discharge(ob *Obligation, dir string, idx int, timeoutS int, cross bool) {
	if ob.Trivial {
		return
	}
	if ob.TimeoutS > timeoutS {
		timeoutS = ob.TimeoutS
	}
	// stage 0: without quantified hypotheses (a sound weakening; most goals do not need them)
	var qf []*Term
	nq := 0
	for i, a := range ob.Asserts {
		if i < len(ob.Asserts)-1 && hasQuant(a) {
			nq++
			continue
		}
		qf = append(qf, a)
	}
	if nq > 0 && !strings.HasPrefix(ob.Kind, "cover") {
		file0 := filepath.Join(dir, fmt.Sprintf("o%05d.qf.smt2", idx))
		if err := os.WriteFile(file0, []byte(ob.ctx.Script(qf, false)), 0o644); err == nil {
			r0 := runSolver(solvers[0], file0, timeoutS)
			atomic.AddInt64(&solverSeconds, r0.ms)
			os.Remove(file0)
			if r0.res == "unsat" {
				ob.Result, ob.Solver, ob.Millis = "unsat", r0.solver+"(qf)", r0.ms
				v, _ := solverWins.LoadOrStore(ob.Solver, new(int64))
				atomic.AddInt64(v.(*int64), 1)
				return
			}
		}
	}
	if strings.HasPrefix(ob.Kind, "cover") && len(ob.Hints) > 0 {
		// try to exhibit one concrete witness first
		fileH := filepath.Join(dir, fmt.Sprintf("o%05d.hint.smt2", idx))
		if err := os.WriteFile(fileH, []byte(ob.ctx.Script(append(append([]*Term{}, ob.Asserts...), ob.Hints...), false)), 0o644); err == nil {
			rh := runSolver(solvers[0], fileH, timeoutS)
			atomic.AddInt64(&solverSeconds, rh.ms)
			os.Remove(fileH)
			if rh.res == "sat" {
				ob.Result, ob.Solver, ob.Millis = "sat", rh.solver+"(witness hints)", rh.ms
				return
			}
		}
	}
	script := ob.ctx.Script(ob.Asserts, true)
	// extra model queries
	if len(ob.queries) > 0 {
		var qs []string
		p := &printer{c: ob.ctx, refs: map[*Term]int{}, named: map[*Term]string{}, vars: map[string]Sort{}}
		for _, q := range ob.queries {
			qs = append(qs, p.str(q, true))
		}
		script += "(get-value (" + strings.Join(qs, " ") + "))\n"
	}
	ob.Size = len(script)
	file := filepath.Join(dir, fmt.Sprintf("o%05d.smt2", idx))
	if err := os.WriteFile(file, []byte(script), 0o644); err != nil {
		ob.Result = "error"
		ob.Output = err.Error()
		return
	}
	// stage 1: the first solver with the quick budget (or the function's own budget)
	t1 := 20
	if ob.TimeoutS > t1 {
		t1 = ob.TimeoutS
	}
	if t1 > timeoutS {
		t1 = timeoutS
	}
	r := runSolver(solvers[0], file, t1)
	atomic.AddInt64(&solverSeconds, r.ms)
	if r.res == "sat" && len(ob.Full) > len(ob.Asserts) {
		// the filtered query dropped hypotheses: confirm the model against all of them
		script = ob.ctx.Script(ob.Full, true)
		os.WriteFile(file, []byte(script), 0o644)
		r = runSolver(solvers[0], file, t1)
		atomic.AddInt64(&solverSeconds, r.ms)
	}
	if r.res != "sat" && r.res != "unsat" {
		// stage 2: race the solvers with the full budget; the first decisive answer wins
		sps := solvers[1:]
		if timeoutS > t1 {
			sps = solvers
		}
		a, ms := raceSolvers(sps, file, timeoutS)
		atomic.AddInt64(&solverSeconds, ms)
		if a.res == "sat" || a.res == "unsat" || r.res == "" {
			r = a
		}
	}
	ob.Result = r.res
	ob.Solver = r.solver
	ob.Millis = r.ms
	ob.Output = r.out
	if r.res == "sat" {
		ob.Model = parseModel(r.out)
	}
	if cross && r.res == "unsat" && r.ms < 5000 {
		// thorough tier: the other solvers confirm what the first decided quickly (a short
		// budget each, run side by side; a time-out is no information, a "sat" is a disagreement)
		ct := 10
		var others []solverSpec
		for _, sp := range solvers {
			if sp.name != r.solver {
				others = append(others, sp)
			}
		}
		ch := make(chan solveResult, len(others))
		for _, sp := range others {
			go func(sp solverSpec) { ch <- runSolver(sp, file, ct) }(sp)
		}
		n := 1
		for range others {
			a := <-ch
			if a.res == "unsat" {
				n++
			}
			if a.res == "sat" {
				ob.Result = "disagree"
				ob.Output += "\nDISAGREEMENT: " + a.solver + " says sat\n" + a.out
			}
		}
		ob.Solver = fmt.Sprintf("%s(+%d confirm)", r.solver, n-1)
	}
	v, _ := solverWins.LoadOrStore(r.solver, new(int64))
	atomic.AddInt64(v.(*int64), 1)
	keep := ob.Kind != "cover.requires" && ob.Kind != "cover.return" && ob.Result != "unsat" ||
		strings.HasPrefix(ob.Kind, "cover") && ob.Result != "sat"
	if !keep {
		os.Remove(file)
	} else {
		ob.Output = "smt2: " + file + "\n" + ob.Output
	}
}

var valRe = regexp.MustCompile(`\(\s*(\|[^|]*\||[^\s()]+)\s+(#x[0-9a-fA-F]+|#b[01]+|true|false|\(fp\s+#[xb][0-9a-fA-F]+\s+#[xb][0-9a-fA-F]+\s+#[xb][0-9a-fA-F]+\)|\(_\s+[+-]?[a-zA-Z]+\s+\d+\s+\d+\))\s*\)`)

func parseModel(out string) map[string]string {
	m := map[string]string{}
	for _, mm := range valRe.FindAllStringSubmatch(out, -1) {
		m[strings.Trim(mm[1], "|")] = mm[2]
	}
	// complex query terms: (( (select ...) #x..)) – capture generic "(<term> <value>)" pairs
	return m
}

func dischargeAll(obls []*Obligation, dir string, timeoutS int, cross bool, workers int) {
	var wg sync.WaitGroup
	ch := make(chan int)
	for w := 0; w < workers; w++ {
		wg.Add(1)
		go func() {
			defer wg.Done()
			for i := range ch {
				discharge(obls[i], dir, i, timeoutS, cross)
			}
		}()
	}
	for i := range obls {
		ch <- i
	}
	close(ch)
	wg.Wait()
	// second chance for undecided obligations: fewer in parallel, three times the budget
	// (a loaded machine must not turn a slow proof into an alarm)
	var retry []int
	for i, ob := range obls {
		if ob.Trivial || strings.HasPrefix(ob.Kind, "cover") {
			continue
		}
		if ob.Result == "timeout" || ob.Result == "unknown" || ob.Result == "error" {
			retry = append(retry, i)
		}
	}
	if len(retry) > 0 && len(retry) <= 64 {
		var wg2 sync.WaitGroup
		sem := make(chan struct{}, 4)
		// the whole retry pass is capped: on a tree where many proofs have stopped working the
		// check must come back "undecided" in bounded time, not hours later
		retryStart := time.Now()
		for _, i := range retry {
			wg2.Add(1)
			go func(i int) {
				defer wg2.Done()
				sem <- struct{}{}
				defer func() { <-sem }()
				if time.Since(retryStart) > 300*time.Second {
					return
				}
				t := timeoutS * 3
				if obls[i].TimeoutS > timeoutS {
					t = obls[i].TimeoutS * 3
				}
				obls[i].TimeoutS = 0
				discharge(obls[i], dir, i, t, cross)
			}(i)
		}
		wg2.Wait()
	}
}

var quantMemo sync.Map

func hasQuant(t *Term) bool {
	if v, ok := quantMemo.Load(t); ok {
		return v.(bool)
	}
	r := t.Op == OForall || t.Op == OExists
	if !r {
		for _, a := range t.Args {
			if hasQuant(a) {
				r = true
				break
			}
		}
	}
	quantMemo.Store(t, r)
	return r
}

// feasible asks the primary solver whether a path condition is satisfiable (2 s budget;
// anything but a definite "unsat" counts as feasible).
func (e *Exec) feasible(st State) bool {
	if st.pcFalse() {
		return false
	}
	e.nFeas++
	as := append([]*Term{}, e.axioms...)
	as = append(as, st.pcList()...)
	last := as[len(as)-1]
	as = append(e.c.relevant(as[:len(as)-1], last), last)
	script := e.c.Script(as, false)
	f, err := os.CreateTemp("", "kvc-feas-*.smt2")
	if err != nil {
		return true
	}
	f.WriteString(script)
	f.Close()
	defer os.Remove(f.Name())
	r := runSolver(solvers[0], f.Name(), 2)
	atomic.AddInt64(&solverSeconds, r.ms)
	return r.res != "unsat"
}

package main

// Bounded stand-ins: where a function could not be brought within the verifier's reach in the
// time a check may take, an execution of the REAL code over a stated finite domain stands in.
// They are reported under coverage.bounded_standins, labelled bounded, and are never counted
// among the discharged obligations. A failing stand-in is a violation whose replay is the
// failing input printed by the run itself.

import (
	"encoding/json"
	"fmt"
	"os"
	"os/exec"
	"path/filepath"
	"regexp"
	"strings"
	"time"
)

type standin struct {
	Name   string // KVC-STANDIN <Name> ...
	Pkg    string // directory below the repository root
	File   string // test source below /verif/standins
	Run    string // -run regexp
	Tier   string // "" = both tiers, "thorough" = thorough only
	Domain string // the bound, stated
	Stands string // what it stands in for
}

var standins = map[string][]standin{
	"C02": {{Name: "C02DIB", Pkg: "knx/knxnet", File: "knxnet_dib_test.go", Run: "^TestKvcStandinC02DIB$",
		Domain: "NOT exhaustive: SearchRes and DescriptionRes with friendly names of every length 0..29 in 6 fill patterns (ASCII and Latin-1), 0..20 service families, 4 field patterns (30,240 values): encode, decode, compare; decode, re-encode, decode",
		Stands: "round trip of the search and description responses, whose friendly name passes through the charmap codec (an assumed contract without an inverse) and whose family list is bounded to 5 in the deductive Pack contract"}},
	"C06": {{Name: "C06F16", Pkg: "knx/dpt", File: "dpt_f16_test.go", Run: "^TestKvcStandinC06F16$",
		Domain: "all 65,536 payloads {0,b1,b2} of each of the 20 two-octet float types 9.xxx (complete for 3-byte payloads; other lengths are rejected by the C08 contracts)",
		Stands: "round trip Unpack;Pack;Unpack of the 9.xxx types through packF16/unpackF16 (float32 multiply/round/halving loop: a deductive proof per exponent needs 16+ minutes per slice and did not finish for every exponent, so it is not registered)"},
		{Name: "C0616", Pkg: "knx/dpt", File: "dpt_16_test.go", Run: "^TestKvcStandinC0616$",
			Domain: "NOT exhaustive: 15-byte payloads of 16.000/16.001 in which two adjacent octets range over all 65,536 values at every position while the other octets are all 0x00, all 'A' or all 0xE9 (5.1 million payloads)",
			Stands: "round trip of the two string types: the deductive lemma exceeds the path budget (string <-> []rune conversions inside two 14-step loops); per-octet independence of the codec is NOT proved"}},
	"C14": {{Name: "C14RET", Pkg: "knx", File: "knx_router_test.go", Run: "^TestKvcStandinC14RET$",
		Domain: "NOT exhaustive: the real Router on a recording socket, RetainCount 1..5 x 0..8 sends x one lost indication with count 0..10, and RetainCount 1..4 x 0..5 sends x two lost indications 0..5 each (1,359 histories), compared with a reference model of the retained window",
		Stands: "WHICH messages are retained and resent and in which order: the deductive check models container/list as a length view, so it proves counts and the end of the list used but not the contents"}},
	"C16": {{Name: "C16TCP", Pkg: "knx/knxnet", File: "knxnet_tcp_test.go", Run: "^TestKvcStandinC16TCP$",
		Domain: "NOT exhaustive: one stream of 6 frames (120 bytes, 5 service types) over loopback TCP: unsplit, every single cut position, 1-byte dribble, cuts at frame boundaries, regular chunks of 2..13 bytes (134 segmentations); skipped (and said so) where loopback TCP is unavailable",
		Stands: "independence of the TCP receiver from segmentation, which the deductive check inherits from the assumed byte-stream contract of bufio.Reader.Peek/io.ReadFull; also exactly-once, in-order surfacing and closing of Inbound after the peer closes"}},
	"C18": {{Name: "C18", Pkg: "knx/cemi", File: "cemi_addr_test.go", Run: "^TestKvcStandinC18$",
		Domain: "all 65,535 non-zero group and individual addresses (format then parse); all 3-level component triples in [-3,35]x[-3,19]x[-3,259], 2-level pairs in [-3,259]x[-3,2051], raw values in [-3,65539]; 42 malformed texts; every argument combination of the four component constructors",
		Stands: "the composition of the parsers/formatters with the real fmt.Sprintf, strings.Split and strconv.Atoi, which the deductive check replaces by assumed contracts over an abstract decimal-text view"}},
	"C19": {{Name: "C19", Pkg: "knx/dpt", File: "dpt_registry_test.go", Run: "^TestKvcStandinC19$",
		Domain: "all listed names (reflection on the produced values), 8 unknown names, every exported DPT_* type declaration found by go/parser in the package directory, 16 goroutines x 20 rounds of Produce/Unpack/Produce over all names (one sampled family of schedules)",
		Stands: "agreement of the table read from the initialiser's SSA with the running package, and instance independence under concurrent use, which the sequential contracts do not cover"}},
	"C07": {{Name: "C07F16", Pkg: "knx/dpt", File: "dpt_f16_test.go", Run: "^TestKvcStandinC07F16$",
		Domain: "every float32 bit pattern except NaNs (4,261,412,866 values) through packF16/unpackF16, in increasing order; plus both range end points of each 9.xxx type",
		Stands: "format, self-decodability, one-step accuracy within [-670760,670760], saturation outside, and monotonicity of the shared two-octet float codec"},
		{Name: "C07F16Types", Pkg: "knx/dpt", File: "dpt_f16_test.go", Run: "^TestKvcStandinC07F16Types$", Tier: "thorough",
			Domain: "every float32 bit pattern except NaNs through Pack/Unpack of each of the 20 types 9.xxx",
			Stands: "per-type clamp, accuracy, saturation at the type's own bounds, monotonicity, self-decodability"}},
}

type standinReport struct {
	Name    string  `json:"name"`
	Label   string  `json:"label"`
	Domain  string  `json:"domain"`
	Stands  string  `json:"stands_in_for"`
	Result  string  `json:"result"`
	Line    string  `json:"line"`
	WallS   float64 `json:"wall_s"`
	Command string  `json:"command"`
}

func runStandins(prop string, o checkOpts, res *checkResult) {
	var reports []standinReport
	for _, s := range standins[prop] {
		if s.Tier == "thorough" && o.tier != "thorough" {
			continue
		}
		if o.only != "" && !strings.Contains(s.Name, o.only) {
			continue
		}
		t0 := time.Now()
		dir, _ := os.MkdirTemp("", "kvc-standin-")
		ov := filepath.Join(dir, "ov.json")
		target := filepath.Join(o.repo, s.Pkg, "zz_kvc_standin_test.go")
		b, _ := json.Marshal(map[string]interface{}{"Replace": map[string]string{target: filepath.Join(verifDir, "standins", s.File)}})
		os.WriteFile(ov, b, 0o644)
		args := []string{"test", "-tags", "verif", "-overlay", ov, "-v", "-vet=off", "-count=1", "-timeout", "3600s", "-run", s.Run, "./" + s.Pkg + "/"}
		cmd := exec.Command("go", args...)
		cmd.Dir = o.repo
		cmd.Env = append(os.Environ(), "GOFLAGS=-mod=mod", "GOPROXY=off", "GOSUMDB=off", "GOTOOLCHAIN=local")
		if o.tier == "thorough" {
			cmd.Env = append(cmd.Env, "KVC_THOROUGH=1")
		}
		if prop == "C19" {
			var ks []string
			for _, f := range loadKnown().Findings {
				if f.Property == "C19" && strings.Contains(f.Obligation, "#table.keyform:") {
					ks = append(ks, f.Obligation[strings.Index(f.Obligation, "#table.keyform:")+len("#table.keyform:"):])
				}
			}
			cmd.Env = append(cmd.Env, "KVC_KNOWN_KEYFORM="+strings.Join(ks, ","))
		}
		out, err := cmd.CombinedOutput()
		os.RemoveAll(dir)
		rep := standinReport{Name: s.Name, Label: "bounded (exhaustive execution of the real code over the stated domain; not a discharged obligation)",
			Domain: s.Domain, Stands: s.Stands, WallS: time.Since(t0).Seconds(), Command: "go " + strings.Join(args, " ")}
		line := ""
		for _, l := range strings.Split(string(out), "\n") {
			if strings.HasPrefix(l, "KVC-STANDIN "+s.Name+" ") {
				line = l
			}
		}
		rep.Line = line
		okRe := regexp.MustCompile(`^KVC-STANDIN ` + s.Name + ` ok\b`)
		switch {
		case err == nil && okRe.MatchString(line):
			rep.Result = "held"
		case strings.Contains(line, " UNCOVERED "):
			rep.Result = "not-covered" // the stand-in's own domain no longer matches the code: undecided, fail closed
		case strings.Contains(line, " FAIL "):
			rep.Result = "violated"
		default:
			rep.Result = "did-not-run"
		}
		reports = append(reports, rep)
		if rep.Result == "held" {
			res.say(o.quiet, "  stand-in %s [bounded]: %s (%.1fs)", s.Name, strings.TrimPrefix(line, "KVC-STANDIN "+s.Name+" "), rep.WallS)
			continue
		}
		known := loadKnown()
		kf := (*knownFinding)(nil)
		for i := range known.Findings {
			if known.Findings[i].Property == prop && known.Findings[i].Obligation == "standin:"+s.Name && strings.Contains(line, known.Findings[i].InputClass) {
				kf = &known.Findings[i]
			}
		}
		if kf != nil {
			res.known++
			res.say(false, "KNOWN-FINDING: property=%s standin:%s %s", prop, s.Name, kf.What)
			continue
		}
		rdir := filepath.Join(verifDir, "replays", prop)
		os.MkdirAll(rdir, 0o755)
		rp := filepath.Join(rdir, "standin-"+s.Name+".txt")
		tail := string(out)
		if len(tail) > 6000 {
			tail = tail[len(tail)-6000:]
		}
		os.WriteFile(rp, []byte(fmt.Sprintf("property: %s\nobligation: standin:%s (bounded stand-in, real code)\nverdict: %s\ncommand (in %s): go %s\nfailing input: %s\n\n--- output ---\n%s\n", prop, s.Name, rep.Result, o.repo, strings.Join(args, " "), line, tail)), 0o644)
		res.violations++
		l := fmt.Sprintf("VIOLATION property=%s replay=%s", prop, rp)
		if rep.Result != "violated" {
			l += " no-failing-input-found"
		}
		res.say(false, "%s", l)
		if !o.quiet {
			fmt.Printf("  stand-in %s: %s\n", s.Name, line)
		}
	}
	if len(reports) > 0 {
		res.extra["bounded_standins"] = reports
	}
}

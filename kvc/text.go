package main

// Assumed contracts of the text layer (fmt.Sprintf with %d verbs, strings.Split with a one-byte
// separator, strconv.Atoi) over an abstract "decimal text" view. A string is identified by its
// (pointer, length) pair — strings are immutable, so every function of the content is a function
// of that pair — and the view consists of uninterpreted functions:
//
//	txt.nparts(s, c)      number of c-separated components of s (>= 1)
//	txt.pptr/plen(s,c,k)  the k-th component
//	txt.aok(t), txt.av(t) strconv.Atoi(t) succeeds / its value
//
// fmt.Sprintf("%d<c>%d<c>%d", a, b, ...) is assumed to produce a string whose c-separated
// components are exactly len(args) numerals that Atoi maps back to the arguments (c a single
// byte that is neither a digit nor a sign). Nothing is assumed about WHICH texts Atoi accepts.

import (
	"go/types"
	"regexp"
)

func (e *Exec) constOfString(v Val) (string, bool) {
	for s, k := range e.strs {
		if len(k) == 2 && len(v) >= 2 && k[0] == v[0] && k[1] == v[1] {
			return s, true
		}
	}
	return "", false
}

func (e *Exec) txtNParts(s Val, ch byte) *Term {
	return e.c.Apply("txt.nparts", BV(64), s[0], s[1], e.c.Const(8, uint64(ch)))
}

func (e *Exec) txtPart(s Val, ch byte, k *Term) Val {
	c := e.c
	return Val{c.Apply("txt.pptr", BV(64), s[0], s[1], c.Const(8, uint64(ch)), k),
		c.Apply("txt.plen", BV(64), s[0], s[1], c.Const(8, uint64(ch)), k)}
}

func (e *Exec) txtAtoiOk(t Val) *Term { return e.c.Apply("txt.aok", Bool, t[0], t[1]) }
func (e *Exec) txtAtoiV(t Val) *Term  { return e.c.Apply("txt.av", BV(64), t[0], t[1]) }

const txtGround = 4 // components for which Split states the element identity as a ground fact

func (e *Exec) textSplit(st State, s, sep Val) (State, Val, bool) {
	c := e.c
	sp, ok := e.constOfString(sep)
	if !ok || len(sp) != 1 {
		return st, nil, false
	}
	ch := sp[0]
	n := e.txtNParts(s, ch)
	st = st.assume(c.And(c.Ule(c.Const(64, 1), n), c.Ule(n, c.Add(s[1], c.Const(64, 1))), c.Ule(s[1], c.Const(64, 1<<30))))
	s2, a := e.alloc(st, c.Mul(n, c.Const(64, 2)), "split")
	arr := c.Fresh("split.data", Sort{KArr, 64})
	s2.h[3] = s2.h[3].push(HeapLayer{kind: lHavoc, addr: a, n: c.Mul(n, c.Const(64, 2)), arr: arr})
	for k := 0; k < txtGround; k++ {
		p := e.txtPart(s, ch, c.Const(64, uint64(k)))
		in := c.Ult(c.Const(64, uint64(k)), n)
		s2 = s2.assume(c.Imp(in, c.And(
			c.Eq(c.Select(arr, c.Add(a, c.Const(64, uint64(2*k)))), p[0]),
			c.Eq(c.Select(arr, c.Add(a, c.Const(64, uint64(2*k+1)))), p[1]))))
	}
	e.assumed["assumed contract: strings.Split with a one-byte separator returns the separator-delimited components (abstract view txt.nparts/txt.part; element identity stated for the first 4 components)"] = true
	return s2, Val{a, n, n}, true
}

func (e *Exec) textAtoi(st State, t Val) []Outcome {
	c := e.c
	ok := e.txtAtoiOk(t)
	good := st.branch(ok)
	bad := st.branch(c.Not(ok))
	bad, ev := e.freshError(bad, "atoi")
	v := c.Fresh("atoi.badval", BV(64))
	e.assumed["assumed contract: strconv.Atoi is a function of its argument (txt.aok/txt.av); returns a non-nil error exactly when it does not accept the text"] = true
	return []Outcome{
		{st: good, ret: Val{e.txtAtoiV(t), c.Const(64, 0), c.Const(64, 0)}},
		{st: bad, ret: Val{v, ev[0], ev[1]}},
	}
}

var fmtDecimal = regexp.MustCompile(`^%d(?:([^0-9+\-%])%d)*$`)

// textSprintf adds the decimal-text facts for formats of the shape %d<c>%d<c>...%d.
func (e *Exec) textSprintf(st State, res Val, format Val, argv Val) State {
	c := e.c
	f, ok := e.constOfString(format)
	if !ok || !fmtDecimal.MatchString(f) {
		return st
	}
	var seps []byte
	for i := 2; i < len(f); i += 3 {
		seps = append(seps, f[i])
	}
	for _, s := range seps {
		if s != seps[0] {
			return st
		}
	}
	nargs := len(seps) + 1
	if len(seps) == 0 || !argv[1].IsConst() || int(argv[1].C) != nargs {
		return st
	}
	ch := seps[0]
	facts := []*Term{c.Eq(e.txtNParts(res, ch), c.Const(64, uint64(nargs)))}
	for k := 0; k < nargs; k++ {
		// element k of the []interface{}: (tag, word) in H64
		tag := e.read(st.h[3], c.Add(argv[0], c.Const(64, uint64(2*k))))
		word := e.read(st.h[3], c.Add(argv[0], c.Const(64, uint64(2*k+1))))
		if !tag.IsConst() {
			return st
		}
		T := e.P.typeOfTag(tag.C)
		if T == nil {
			return st
		}
		b, isB := T.Underlying().(*types.Basic)
		if !isB || b.Info()&types.IsInteger == 0 {
			return st
		}
		if b.Info()&types.IsUnsigned != 0 && intWidth(T) == 64 {
			return st
		}
		v := e.loadFrom(st.h, word, T)
		x := e.ext(v[0], T, 64)
		p := e.txtPart(res, ch, c.Const(64, uint64(k)))
		facts = append(facts, e.txtAtoiOk(p), c.Eq(e.txtAtoiV(p), x))
	}
	e.assumed["assumed contract: fmt.Sprintf(\"%d<c>%d...\") yields decimal numerals separated by <c> that strings.Split and strconv.Atoi map back to the arguments"] = true
	return st.assume(c.And(facts...))
}

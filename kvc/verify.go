package main

import (
	"fmt"
	"go/token"
	"go/types"
	"strings"

	"golang.org/x/tools/go/ssa"
)

func (e *Exec) pkgOf(fn *ssa.Function) *types.Package {
	for fn.Parent() != nil {
		fn = fn.Parent()
	}
	if fn.Pkg != nil {
		return fn.Pkg.Pkg
	}
	if fn.Object() != nil {
		return fn.Object().Pkg()
	}
	return nil
}

// contractEnv binds a contract's names to argument values.
func (e *Exec) contractEnv(fn *ssa.Function, ct *FuncContract, args []Val, old, cur State, brkOld *Term) *cenv {
	env := &cenv{e: e, vars: map[string]cval{}, cur: cur, old: old, pkg: e.pkgOf(fn), brkOld: brkOld, where: ct.Line, facts: new([]*Term)}
	for i, p := range fn.Params {
		name := p.Name()
		if i < len(ct.Params) {
			name = ct.Params[i]
		}
		env.vars[name] = cval{v: args[i], T: p.Type()}
	}
	return env
}

// useFacts moves the side facts gathered while evaluating contract expressions into st.
func (e *Exec) useFacts(st State, env *cenv) State {
	if env.facts == nil {
		return st
	}
	for _, f := range *env.facts {
		st = st.assume(f)
	}
	*env.facts = (*env.facts)[:0]
	return st
}

func (e *Exec) bindResults(env *cenv, fn *ssa.Function, ct *FuncContract, ret Val) {
	res := fn.Signature.Results()
	off := 0
	for i := 0; i < res.Len(); i++ {
		n := e.P.lay.nslots(res.At(i).Type())
		name := fmt.Sprintf("result%d", i)
		if i < len(ct.Results) {
			name = ct.Results[i]
		}
		v := cval{v: ret[off : off+n], T: res.At(i).Type()}
		env.vars[name] = v
		if res.Len() == 1 {
			env.vars["result"] = v
		}
		off += n
	}
}

func (e *Exec) evalLets(env *cenv, ct *FuncContract) {
	for _, l := range ct.Lets {
		env.where = l.Line
		env.vars[l.Label] = env.eval(l.X)
	}
}

type VerifyResult struct {
	Fn      *ssa.Function
	Ct      *FuncContract
	Obls    []*Obligation
	Unsup   string
	Paths   int
	Returns int
	Exec    *Exec
	Diag    []string
	NoDecr  []string // loops without a variant
	Bounded []string
}

// verifyFunction proves fn against its contract (implicit obligations + ensures).
func verifyFunction(P *Program, fn *ssa.Function, props []string) *VerifyResult {
	return verifyFunctionOpt(P, fn, props, nil)
}

func verifyFunctionOpt(P *Program, fn *ssa.Function, props []string, opt func(*Exec)) (res *VerifyResult) {
	e := newExec(P)
	if opt != nil {
		opt(e)
	}
	e.rootFn = fn
	ct := P.contracts.lookup(P, fn)
	if ct == nil {
		ct = &FuncContract{Key: fn.String(), Loops: map[int]*LoopContract{}}
		for _, p := range fn.Params {
			ct.Params = append(ct.Params, p.Name())
		}
	}
	e.rootCt = ct
	if ct.Exact {
		e.forceInline = true
	}
	if ct.Prune {
		e.prune = true
	}
	e.curProps = ct.Props
	if len(e.curProps) == 0 {
		e.curProps = props
	}
	res = &VerifyResult{Fn: fn, Ct: ct, Exec: e}
	defer func() {
		if r := recover(); r != nil {
			switch x := r.(type) {
			case unsupported:
				res.Unsup = x.msg
			case cerr:
				res.Unsup = "contract error: " + x.msg
			default:
				panic(r)
			}
		}
		res.Obls = e.obls
		res.Paths = e.paths + 1
		res.Diag = e.diag
		res.NoDecr = e.noDecr
		res.Bounded = e.bounded
	}()
	c := e.c
	st := e.initState()
	var args []Val
	confine := map[*Term]bool{}
	for i, p := range fn.Params {
		sl := P.lay.slots(p.Type())
		v := make(Val, len(sl))
		pname := p.Name()
		if i < len(ct.Params) {
			pname = ct.Params[i]
		}
		for j, k := range sl {
			nm := fmt.Sprintf("in.%s.%d", pname, j)
			switch k {
			case SBool:
				v[j] = c.Var(nm, Bool)
			case SF32, SF64:
				// floats enter as bit patterns (so that models are plain bit-vectors)
				v[j] = e.fpFromBits(c.Var(nm, BV(k.width())))
			default:
				v[j] = c.Var(nm, BV(int(k)))
			}
		}
		st = e.assumeValid(st, p.Type(), v, true)
		if i == 0 && fn.Signature.Recv() != nil {
			if _, ok := p.Type().Underlying().(*types.Pointer); ok {
				st = st.assume(c.Ne(v[0], c.Const(64, 0)))
				e.assumed["method receivers are non-nil"] = true
			}
		}
		if ct.Decoder {
			if _, ok := p.Type().Underlying().(*types.Slice); ok {
				if eb, ok := p.Type().Underlying().(*types.Slice).Elem().Underlying().(*types.Basic); ok && eb.Kind() == types.Uint8 {
					confine[v[0]] = true
				}
			}
		}
		args = append(args, v)
		e.paramVals = append(e.paramVals, v)
		e.paramNames = append(e.paramNames, pname)
	}
	entry := st
	env := e.contractEnv(fn, ct, args, entry, entry, st.brk)
	e.evalLets(env, ct)
	if len(ct.Determines) > 0 {
		// the (whole) output buffer of the root: last slice-typed parameter
		for i := len(fn.Params) - 1; i >= 0; i-- {
			if _, ok := fn.Params[i].Type().Underlying().(*types.Slice); ok {
				e.rootDet = &cval{v: args[i], T: fn.Params[i].Type()}
				break
			}
		}
	}
	for _, r := range ct.Requires {
		env.where = r.Line
		env.cur, env.old = st, st
		g := env.evalBool(r.X)
		st = e.useFacts(st, env)
		st = st.assume(g)
	}
	// the entry state as seen by old(), frames and relational checks: with the preconditions
	entry = st
	e.rootEntrySt = st
	// vacuity cover: the preconditions must be satisfiable
	e.cover(st, fn, "cover.requires")
	fr := e.newFrame(fn, args, st, 0)
	fr.root = true
	fr.ct = ct
	if ct.Decoder {
		fr.confine = confine
	}
	e.stack = []*ssa.Function{fn}
	if len(ct.Yields) > 0 {
		e.yieldsCheck(fn, ct)
	}
	// a loop clause must bind to a loop that exists: otherwise the obligation set has changed
	nloops := 0
	for _, b := range fn.Blocks {
		if isLoopHeader(b) {
			nloops++
		}
	}
	for ord := range ct.Loops {
		if ord >= nloops && !e.noCut {
			e.fail("the contract has clauses for loop %d but %s has only %d loop(s)", ord, shortFn(fn.String()), nloops)
		}
	}
	outs := e.execFrom(fr, st, fn.Blocks[0], nil, 0)
	res.Returns = len(outs)
	for _, o := range outs {
		penv := e.contractEnv(fn, ct, args, entry, o.st, entry.brk)
		e.bindResults(penv, fn, ct, o.ret)
		e.evalLets(penv, ct)
		// prev(e) in an ensures clause: e at the head of the last loop iteration of this path
		// (the entry state if the path never entered a cut loop)
		if o.st.lastHead != nil {
			penv.prev = o.st.lastHead
		} else {
			es := entry
			penv.prev = &es
		}
		s := o.st
		for i, en := range ct.Ensures {
			penv.where = en.Line
			penv.cur = s
			goal := penv.evalBool(en.X)
			s = e.useFacts(s, penv)
			lab := en.Label
			if lab == "" {
				lab = fmt.Sprintf("e%d", i)
			}
			save := e.curProps
			if len(en.Props) > 0 {
				e.curProps = en.Props
			}
			s = e.oblige(s, fn, "post", lab, token.NoPos, goal)
			e.curProps = save
		}
		if ct.HasAssigns {
			e.frameCheck(s, entry, penv, ct.Assigns, fn, "assigns", entry.brk)
		}
		if !ct.ModGhost && (s.ghost != entry.ghost || s.gepoch != entry.gepoch) && (ct.HasAssigns || len(ct.Ensures) > 0) {
			// environment effects (sends, spawns, locking) must be declared with a `ghost` clause
			e.oblige(s, fn, "assigns", "ghost", token.NoPos, e.c.False)
		}
		if ct.ModGhost && (len(ct.Ghost) > 0 || len(ct.GhostKeys) > 0) {
			// ghost kinds / objects not named in the clause must end as they started
			want := map[string]bool{}
			for _, k := range ct.Ghost {
				want[k] = true
			}
			kenv := e.contractEnv(fn, ct, args, entry, entry, entry.brk)
			for _, it := range ct.GhostKeys {
				want[e.ghostKeyOf(kenv, it)] = true
			}
			var wl []string
			for k := range want {
				wl = append(wl, k)
			}
			for _, k := range expandGhostNames(wl) {
				want[k] = true
			}
			seen := map[string]bool{}
			if s.gepoch != entry.gepoch {
				e.oblige(s, fn, "assigns", "ghost", token.NoPos, e.c.False)
			}
			for g := s.ghost; g != nil && g != entry.ghost; g = g.prev {
				if seen[g.name] {
					continue
				}
				seen[g.name] = true
				k := ghostKind(g.name)
				key := g.name
				if i := strings.IndexByte(key, '#'); i >= 0 {
					key = key[:i]
				}
				if want[k] || want[key] || e.ghostOfFresh(g.name) || k == "clock" {
					// the clock is never framed: time passes in every function
					continue
				}
				hv := e.ghost(entry, g.name, g.val.S)
				s = e.oblige(s, fn, "assigns", "ghost."+k, token.NoPos, e.c.Eq(g.val, hv))
			}
		}
	}
	if len(ct.Determines) > 0 {
		e.determinedCheck(fn, ct, args, entry, outs)
	}
	// reachability of a normal return (vacuity guard iii): some return path is feasible
	for i, o := range outs {
		if i >= 12 {
			break
		}
		e.cover(o.st, fn, "cover.return")
		last := e.obls[len(e.obls)-1]
		st := o.st
		last.retVals, last.retSt = o.ret, &st
	}
	return res
}

// cover records a satisfiability check (expected sat) used as a vacuity guard.
func (e *Exec) cover(st State, fn *ssa.Function, kind string) {
	ob := &Obligation{Name: shortFn(fn.String()) + "#" + kind, Kind: kind, Func: fn.String(), ctx: e.c, exec: e}
	as := append([]*Term{}, e.axioms...)
	as = append(as, st.pcList()...)
	ob.Asserts = as
	ob.Hints = append([]*Term{}, e.hints...)
	ob.Props = e.curProps
	e.obls = append(e.obls, ob)
}

// frameCheck: every cell below `limit` outside the declared spans is unchanged
// between base and cur.
func (e *Exec) frameCheck(cur State, base State, env *cenv, assigns []Expr, fn *ssa.Function, kind string, limit *Term) {
	c := e.c
	var spans []span
	n := *env
	n.cur = base
	for _, a := range assigns {
		spans = append(spans, n.lvalueSpans(a)...)
	}
	cur = e.useFacts(cur, &n)
	for h := 0; h < 4; h++ {
		if cur.h[h] == base.h[h] {
			continue
		}
		a := c.Fresh("fa", BV(64))
		if limit == e.brk0 {
			// an address below the entry frontier cannot lie in anything allocated since
			e.registerInput(a, c.Const(64, 1))
		}
		conds := []*Term{c.Ult(a, limit)}
		for _, s := range spans {
			if s.h == h {
				conds = append(conds, c.Not(e.inRange(a, s.start, s.n)))
			}
		}
		nv := e.read(cur.h[h], a)
		ov := e.read(base.h[h], a)
		goal := c.Imp(c.And(conds...), c.Eq(nv, ov))
		e.oblige(cur, fn, kind, fmt.Sprintf("H%d", heapWidths[h]), token.NoPos, goal)
	}
}

// havocSpans replaces the given spans by fresh contents.
func (e *Exec) havocSpans(st State, spans []span, what string) State {
	c := e.c
	for _, s := range spans {
		arr := c.Fresh(what, Sort{KArr, heapWidths[s.h]})
		st.h[s.h] = st.h[s.h].push(HeapLayer{kind: lHavoc, addr: s.start, n: s.n, arr: arr})
	}
	return st
}

// havocAbove forgets everything at or above the allocation frontier (memory the callee
// or the loop body may have allocated and written) and moves the frontier.
func (e *Exec) havocAbove(st State, what string) State {
	c := e.c
	old := st.brk
	for h := 0; h < 4; h++ {
		arr := c.Fresh("hva."+what, Sort{KArr, heapWidths[h]})
		st.h[h] = st.h[h].push(HeapLayer{kind: lHavocAbove, addr: old, arr: arr, seq: e.seq + 1, tid: c.nextID})
	}
	nb := c.Fresh("brk."+what, BV(64))
	st = st.assume(c.Ule(old, nb))
	st = st.assume(c.Ult(nb, c.Const(64, 1<<62)))
	st.brk = nb
	e.seq++
	return st
}

func (e *Exec) havocAll(st State, what string) State {
	c := e.c
	for h := 0; h < 4; h++ {
		arr := c.Fresh("hvall."+what, Sort{KArr, heapWidths[h]})
		st.h[h] = &HeapLayer{kind: lBase, arr: arr, w: heapWidths[h]}
	}
	return st
}

func (e *Exec) freshVal(T types.Type, what string) Val {
	sl := e.P.lay.slots(T)
	v := make(Val, len(sl))
	for j, k := range sl {
		switch k {
		case SBool:
			v[j] = e.c.Fresh(what, Bool)
		case SF32, SF64:
			v[j] = e.fpFromBits(e.c.Fresh(what, BV(k.width())))
		default:
			v[j] = e.c.Fresh(what, BV(int(k)))
		}
	}
	return v
}

// applyContract: assert requires, havoc assigns, assume ensures (DESIGN Appendix B, Call).
func (e *Exec) applyContract(fr *Frame, st State, fn *ssa.Function, ct *FuncContract, args []Val, pos token.Pos) []Outcome {
	e.abstractions++
	pre := st
	for _, a := range args {
		for _, t := range a {
			if t.S.K == KBV && t.S.W == 64 {
				if r := addrRoot(t); e.regions[r] != nil && e.regions[r].fresh {
					e.escaped[r] = true
				}
			}
		}
	}
	env := e.contractEnv(fn, ct, args, pre, pre, pre.brk)
	e.evalLets(env, ct)
	short := shortFn(fn.String())
	for i, r := range ct.Requires {
		env.where = r.Line
		env.cur, env.old = st, st
		goal := env.evalBool(r.X)
		st = e.useFacts(st, env)
		lab := r.Label
		if lab == "" {
			lab = fmt.Sprintf("r%d", i)
		}
		st = e.oblige(st, fr.fn, "pre", short+"/"+lab, pos, goal)
	}
	// effects
	if ct.HasAssigns {
		var spans []span
		for _, a := range ct.Assigns {
			spans = append(spans, env.lvalueSpans(a)...)
		}
		st = e.useFacts(st, env)
		what := "hv." + short
		if len(ct.Determines) > 0 {
			// the callee's output over its determined range is a function of its inputs, which
			// are the same in both runs of a relational check: the array keeps its name there
			what = "in.$det." + short
			if e.rootCt != nil && len(e.rootCt.Determines) > 0 && e.rootDet != nil {
				for i, a := range args {
					T := fn.Params[i].Type()
					if _, isSl := T.Underlying().(*types.Slice); isSl && i == len(args)-1 {
						continue // the output buffer itself
					}
					goal := env.sepDeep(cval{v: a, T: T}, *e.rootDet)
					st = e.useFacts(st, env)
					st = e.oblige(st, fr.fn, "pre", short+"/det-sep", pos, goal)
				}
			}
		}
		st = e.havocSpans(st, spans, what)
	} else {
		st = e.havocAll(st, short)
	}
	st = e.havocAbove(st, short)
	if ct.ModGhost {
		if len(ct.Ghost) > 0 || len(ct.GhostKeys) > 0 {
			names := append([]string{}, ct.Ghost...)
			for _, it := range ct.GhostKeys {
				names = append(names, e.ghostKeyOf(env, it))
			}
			st = e.havocGhostKinds(st, names)
		} else {
			st = e.havocGhost(st)
		}
	}
	if g := st.getGhost("clock"); g != nil || ct.ModGhost {
		// time passes inside every callee (by an arbitrary non-negative amount)
		c := e.c
		now := c.Fresh("now", BV(64))
		old := e.ghost(st, "clock", BV(64))
		st = st.assume(c.And(c.Sle(old, now), c.Slt(c.Sub(now, old), c.Const(64, 1<<50))))
		st = st.setGhost("clock", now)
	}
	res := fn.Signature.Results()
	var ret Val
	for i := 0; i < res.Len(); i++ {
		v := e.freshVal(res.At(i).Type(), fmt.Sprintf("ret.%s.%d", fn.Name(), i))
		st = e.assumeValid(st, res.At(i).Type(), v, true)
		ret = append(ret, v...)
	}
	penv := e.contractEnv(fn, ct, args, pre, st, pre.brk)
	e.bindResults(penv, fn, ct, ret)
	e.evalLets(penv, ct)
	for _, en := range ct.Ensures {
		if usesPrev(en.X) {
			continue // a claim about the callee's last loop iteration: of no use to callers
		}
		penv.where = en.Line
		penv.cur = st
		g := penv.evalBool(en.X)
		st = e.useFacts(st, penv)
		st = st.assume(g)
	}
	// results declared to be functions of the arguments (established by yieldsCheck)
	for _, y := range ct.Yields {
		penv.cur = st
		var as []*Term
		for _, a := range y.Args {
			as = append(as, penv.eval(a).v...)
		}
		v := penv.eval(y.Val)
		if len(v.v) != 1 {
			e.fail("yields: scalar expected")
		}
		st = st.assume(e.c.Eq(e.c.Apply("fn."+y.Name, v.v[0].S, as...), v.v[0]))
	}
	if st.pcFalse() {
		return nil
	}
	return []Outcome{{st: st, ret: ret}}
}

// termSymbols collects the names of all variables (scalars and arrays) and uninterpreted
// functions in t.
func termSymbols(t *Term, seen map[*Term]bool, out map[string]bool) {
	if seen[t] {
		return
	}
	seen[t] = true
	if t.Op == OVar || t.Op == OApply {
		out[t.Name] = true
	}
	for _, a := range t.Args {
		termSymbols(a, seen, out)
	}
}

// yieldsCheck: the function is functionally pure (purity.go) and every yielded expression reads
// results only; callers may then assume fn.<name>(args) == expr.
func (e *Exec) yieldsCheck(fn *ssa.Function, ct *FuncContract) {
	why := functionalPure(fn, map[*ssa.Function]bool{})
	results := map[string]bool{}
	for _, r := range ct.Results {
		results[r] = true
	}
	for _, y := range ct.Yields {
		bad := why
		if bad == "" && !yieldExprOK(y.Val, results) {
			bad = "the yielded expression must be a scalar result, result[const] or len(result)"
		}
		for _, a := range y.Args {
			if id, ok := a.(EIdent); !ok || results[id.Name] {
				bad = "the arguments of a yields function must be parameters"
			}
		}
		ob := &Obligation{Name: shortFn(fn.String()) + "#functional:" + y.Name, Kind: "functional", Label: y.Name, Func: fn.String(),
			Pos: e.P.pos(fn.Pos()), ctx: e.c, exec: e, Goal: y.Name + " is a function of the arguments (syntactic purity of " + shortFn(fn.String()) + ")",
			Trivial: true, Solver: "purity analysis", Props: e.curProps}
		if bad == "" {
			ob.Result = "unsat"
		} else {
			ob.Result = "sat"
			ob.Output = bad
		}
		e.obls = append(e.obls, ob)
	}
}

// ---------- loops ----------

func (e *Exec) loopEnv(fr *Frame, st State, b *ssa.BasicBlock, phiVals map[*ssa.Phi]Val) *cenv {
	ct := e.ctFor(fr)
	env := &cenv{e: e, vars: map[string]cval{}, cur: st, old: fr.entry, pkg: e.pkgOf(fr.fn), brkOld: fr.entry.brk, facts: new([]*Term)}
	// parameters (contract names when this is the root, else source names)
	for i, p := range fr.fn.Params {
		name := p.Name()
		if ct != nil && i < len(ct.Params) {
			name = ct.Params[i]
		}
		env.vars[name] = cval{v: fr.args[i], T: p.Type()}
		if p.Name() != name {
			env.vars[p.Name()] = env.vars[name]
		}
	}
	// address-taken locals: by source name, read through memory
	for _, bb := range fr.fn.Blocks {
		for _, in := range bb.Instrs {
			if a, ok := in.(*ssa.Alloc); ok && a.Comment != "" {
				if v, ok := fr.regs[a]; ok {
					if _, dup := env.vars[a.Comment]; !dup {
						env.vars[a.Comment] = cval{addr: v[0], T: a.Type().(*types.Pointer).Elem()}
					}
				}
			}
			if d, ok := in.(*ssa.DebugRef); ok && !d.IsAddr {
				if id, ok := d.Expr.(interface{ String() string }); ok {
					_ = id
				}
			}
		}
	}
	// loop-carried variables
	for _, in := range b.Instrs {
		phi, ok := in.(*ssa.Phi)
		if !ok {
			break
		}
		if phi.Comment == "" {
			continue
		}
		if v, ok := phiVals[phi]; ok {
			env.vars[phi.Comment] = cval{v: v, T: phi.Type()}
		}
	}
	// named values defined before the loop (debug refs)
	for name, v := range e.namedValues(fr, b) {
		if _, dup := env.vars[name]; !dup {
			env.vars[name] = v
		}
	}
	if fr.root && ct != nil {
		for _, l := range ct.Lets {
			env.where = l.Line
			env.vars[l.Label] = env.eval(l.X)
		}
	}
	return env
}

func (e *Exec) ctFor(fr *Frame) *FuncContract {
	if fr.ct != nil {
		return fr.ct
	}
	return e.P.contracts.lookup(e.P, fr.fn)
}

// namedValues maps source identifiers to SSA registers via DebugRef instructions: for each
// name the latest reference whose value is defined in a block dominating the loop header
// (header phis themselves are bound separately).
func (e *Exec) namedValues(fr *Frame, b *ssa.BasicBlock) map[string]cval {
	out := map[string]cval{}
	for _, bb := range fr.fn.Blocks {
		for _, in := range bb.Instrs {
			d, ok := in.(*ssa.DebugRef)
			if !ok || d.IsAddr {
				continue
			}
			id, ok := d.Expr.(interface{ String() string })
			if !ok {
				continue
			}
			name := id.String()
			if strings.ContainsAny(name, ".([ ") {
				continue
			}
			v, ok := fr.regs[d.X]
			if !ok {
				continue
			}
			if instr, isInstr := d.X.(ssa.Instruction); isInstr {
				db := instr.Block()
				if db == b {
					if _, isPhi := d.X.(*ssa.Phi); isPhi {
						continue
					}
				}
				if db != nil && !db.Dominates(b) {
					continue
				}
			}
			if !bb.Dominates(b) && bb != b {
				continue
			}
			out[name] = cval{v: v, T: d.X.Type()}
		}
	}
	return out
}

// enterLoopHeader handles arrival at a loop header. Returns stop=true when the path ends
// here (back edge of an invariant-cut loop, or unrolling bound reached).
func (e *Exec) enterLoopHeader(fr *Frame, st State, b *ssa.BasicBlock, prev *ssa.BasicBlock) (State, bool) {
	c := e.c
	ct := e.ctFor(fr)
	ord := loopOrdinal(b)
	var lc *LoopContract
	if ct != nil && (fr.root || !ct.Inline) {
		// transparent (inline) functions are unrolled at their call sites; their loop
		// contracts are used only when they are verified stand-alone
		lc = ct.Loops[ord]
	}
	back := prev != nil && isBackEdge(prev, b)
	if lc != nil {
		e.abstractions++
	}
	if e.noCut {
		lc = nil
		fr.visits[b]++
		if fr.visits[b] > e.cfg.unroll+1 {
			return st, true
		}
		return st, false
	}
	if lc == nil || len(lc.Invariants) == 0 && lc.Decreases == nil && len(lc.Steps) == 0 {
		// unrolling
		limit := e.cfg.unroll
		if lc != nil && lc.Unroll > 0 {
			limit = lc.Unroll
		}
		fr.visits[b]++
		if fr.visits[b] > limit+1 {
			name := fmt.Sprintf("%s loop %d", shortFn(fr.fn.String()), ord)
			e.oblige(st, fr.fn, "unwind", fmt.Sprintf("loop%d.%d", ord, limit), b.Instrs[0].Pos(), c.False)
			e.boundedSet(name, limit)
			return st, true
		}
		return st, false
	}
	// incoming phi values along this edge
	pi := -1
	for k, p := range b.Preds {
		if p == prev {
			pi = k
		}
	}
	incoming := map[*ssa.Phi]Val{}
	for _, in := range b.Instrs {
		phi, ok := in.(*ssa.Phi)
		if !ok {
			break
		}
		if pi >= 0 {
			incoming[phi] = e.operand(fr, &st, phi.Edges[pi])
		}
	}
	pos := b.Instrs[0].Pos()
	if !back {
		// establish
		env := e.loopEnv(fr, st, b, incoming)
		for i, inv := range lc.Invariants {
			env.where = inv.Line
			lab := inv.Label
			if lab == "" {
				lab = fmt.Sprintf("i%d", i)
			}
			g := env.evalBool(inv.X)
			st = e.useFacts(st, env)
			st = e.oblige(st, fr.fn, "inv.entry", fmt.Sprintf("loop%d.%s", ord, lab), pos, g)
		}
		// havoc loop-carried state
		if lc.HasAssigns {
			var spans []span
			for _, a := range lc.Assigns {
				env.where = ct.Line
				spans = append(spans, env.lvalueSpans(a)...)
			}
			st = e.useFacts(st, env)
			st = e.havocSpans(st, spans, "hv.loop")
		}
		limit := st.brk
		st = e.havocAbove(st, "loop")
		if lc.HasGhost {
			st = e.havocGhostKinds(st, lc.GhostKinds)
			{
				// time passes in every iteration
				now := c.Fresh("now", BV(64))
				old := e.ghost(st, "clock", BV(64))
				st = st.assume(c.And(c.Sle(old, now), c.Slt(c.Sub(now, old), c.Const(64, 1<<50))))
				st = st.setGhost("clock", now)
			}
		} else if rc := e.ctFor(fr); rc != nil && rc.ModGhost {
			st = e.havocGhost(st)
		}
		hv := map[*ssa.Phi]Val{}
		regsAt := map[ssa.Value]Val{}
		for _, in := range b.Instrs {
			phi, ok := in.(*ssa.Phi)
			if !ok {
				break
			}
			v := e.freshVal(phi.Type(), "phi."+phi.Comment)
			st = e.assumeValid(st, phi.Type(), v, true)
			hv[phi] = v
			fr.regs[phi] = v
			regsAt[phi] = v
		}
		henv := e.loopEnv(fr, st, b, hv)
		for _, inv := range lc.Invariants {
			henv.where = inv.Line
			g := henv.evalBool(inv.X)
			st = e.useFacts(st, henv)
			st = st.assume(g)
		}
		cut := &loopCut{headState: st, regsAt: regsAt}
		cut.limit = limit
		if lc.Decreases != nil {
			henv.where = lc.Decreases.Line
			dv := henv.eval(lc.Decreases.X)
			cut.variant = henv.toInt64(dv)
			st = e.useFacts(st, henv)
			cut.headState = st
		} else if ct == nil || !ct.NoTerm {
			e.noDecr = append(e.noDecr, fmt.Sprintf("%s loop %d", shortFn(fr.fn.String()), ord))
		}
		fr.loops[b] = cut
		hs := cut.headState
		st.lastHead = &hs
		return st, false
	}
	// back edge: preserve
	cut := fr.loops[b]
	if cut == nil {
		e.fail("back edge without loop entry in %s", fr.fn)
	}
	env := e.loopEnv(fr, st, b, incoming)
	for i, inv := range lc.Invariants {
		env.where = inv.Line
		lab := inv.Label
		if lab == "" {
			lab = fmt.Sprintf("i%d", i)
		}
		g := env.evalBool(inv.X)
		st = e.useFacts(st, env)
		st = e.oblige(st, fr.fn, "inv.keep", fmt.Sprintf("loop%d.%s", ord, lab), pos, g)
	}
	if lc.Decreases != nil {
		env.where = lc.Decreases.Line
		nv := env.toInt64(env.eval(lc.Decreases.X))
		st = e.useFacts(st, env)
		st = e.oblige(st, fr.fn, "variant", fmt.Sprintf("loop%d", ord), pos, c.And(c.Sle(c.Const(64, 0), cut.variant), c.Slt(nv, cut.variant)))
	}
	for i, sc := range lc.Steps {
		env.where = sc.Line
		hs := cut.headState
		env.prev = &hs
		g := env.evalBool(sc.X)
		st = e.useFacts(st, env)
		lab := sc.Label
		if lab == "" {
			lab = fmt.Sprintf("s%d", i)
		}
		st = e.oblige(st, fr.fn, "loop.step", fmt.Sprintf("loop%d.%s", ord, lab), pos, g)
	}
	if lc.HasGhost {
		// ghost variables of kinds the loop does not declare must be what they were at the head
		want := map[string]bool{}
		for _, k := range lc.GhostKinds {
			want[k] = true
		}
		for _, k := range expandGhostNames(lc.GhostKinds) {
			want[k] = true
		}
		seen := map[string]bool{}
		for g := st.ghost; g != nil && g != cut.headState.ghost; g = g.prev {
			if seen[g.name] {
				continue
			}
			seen[g.name] = true
			if want[ghostKind(g.name)] || e.ghostOfFresh(g.name) || ghostKind(g.name) == "clock" {
				continue
			}
			hv := e.ghost(cut.headState, g.name, g.val.S)
			st = e.oblige(st, fr.fn, "loop.ghost", fmt.Sprintf("loop%d.%s", ord, ghostKind(g.name)), pos, c.Eq(g.val, hv))
		}
	}
	// frame of the loop body
	headPhis := map[*ssa.Phi]Val{}
	for k, v := range cut.regsAt {
		if p, ok := k.(*ssa.Phi); ok {
			headPhis[p] = v
		}
	}
	henv := e.loopEnv(fr, cut.headState, b, headPhis)
	var as []Expr
	if lc.HasAssigns {
		as = lc.Assigns
	}
	e.frameCheck(st, cut.headState, henv, as, fr.fn, "loop.assigns", cut.limit)
	return st, true
}

func (e *Exec) boundedSet(name string, k int) {
	s := fmt.Sprintf("%s: bounded(%d)", name, k)
	for _, x := range e.bounded {
		if x == s {
			return
		}
	}
	e.bounded = append(e.bounded, s)
}

// ---------- "determines": relational (two-run) check ----------

// primer maps a term of the first run to the corresponding term of a second run that
// starts from a heap differing from the first only inside the byte range [start, start+n).
type primer struct {
	e     *Exec
	start *Term
	n     *Term
	x8    *Term
	memo  map[*Term]*Term
}

func inputName(n string) bool {
	return strings.HasPrefix(n, "in.") || n == "BRK0" || strings.HasPrefix(n, "G.") || strings.HasPrefix(n, "S.") ||
		n == "H8" || n == "H16" || n == "H32" || n == "H64"
}

func (p *primer) prime(t *Term) *Term {
	if r, ok := p.memo[t]; ok {
		return r
	}
	c := p.e.c
	var r *Term
	switch {
	case t.Op == OVar:
		if inputName(t.Name) {
			r = t
		} else {
			r = c.Var(t.Name+"'", t.S)
		}
	case t.Op == OConst || t.Op == OBound:
		r = t
	case t.Op == OSelect && t.Args[0] == p.e.base[0]:
		a := p.prime(t.Args[1])
		r = c.Ite(p.e.inRange(a, p.start, p.n), c.Select(p.x8, a), c.Select(p.e.base[0], a))
	default:
		args := make([]*Term, len(t.Args))
		ch := false
		for i, a := range t.Args {
			args[i] = p.prime(a)
			if args[i] != a {
				ch = true
			}
		}
		if ch {
			r = c.rebuild(t, args)
		} else {
			r = t
		}
	}
	p.memo[t] = r
	return r
}

func (e *Exec) determinedCheck(fn *ssa.Function, ct *FuncContract, args []Val, entry State, outs []Outcome) {
	c := e.c
	env := e.contractEnv(fn, ct, args, entry, entry, entry.brk)
	e.evalLets(env, ct)
	for di, d := range ct.Determines {
		env.where = ct.Line
		spans := env.lvalueSpans(d)
		spanFacts := append([]*Term{}, (*env.facts)...)
		*env.facts = (*env.facts)[:0]
		for _, sp := range spans {
			if sp.h != 0 {
				continue
			}
			p := &primer{e: e, start: sp.start, n: sp.n, x8: c.Var("in.$other", Sort{KArr, 8}), memo: map[*Term]*Term{}}
			k := c.Var("in.$k", BV(64))
			// primed path conditions
			type pp struct {
				pcs  []*Term
				prim []*Term
				dep  bool
			}
			var ps []pp
			for _, o := range outs {
				x := pp{pcs: o.st.pcList()}
				for _, t := range x.pcs {
					pt := p.prime(t)
					x.prim = append(x.prim, pt)
					if pt != t {
						x.dep = true
					}
				}
				ps = append(ps, x)
			}
			for i, o := range outs {
				st := o.st
				if ct.DetWhen != nil {
					penv := e.contractEnv(fn, ct, args, entry, o.st, entry.brk)
					e.bindResults(penv, fn, ct, o.ret)
					g := penv.evalBool(ct.DetWhen)
					st = e.useFacts(st, penv)
					st = st.assume(g)
					if st.pcFalse() {
						continue
					}
				}
				for _, t := range ps[i].prim {
					st = st.assume(t)
				}
				for _, t := range spanFacts {
					st = st.assume(t)
					st = st.assume(p.prime(t))
				}
				st = st.assume(c.Ult(k, sp.n))
				a := c.Add(sp.start, k)
				v1 := e.read(o.st.h[0], a)
				v2 := p.prime(v1)
				e.oblige(st, fn, "determined", fmt.Sprintf("d%d", di), token.NoPos, c.Eq(v1, v2))
				// the path taken must not depend on the buffer's old content either
				for j := range outs {
					if j <= i || !ps[j].dep && !ps[i].dep {
						continue
					}
					s2 := o.st
					for _, t := range ps[j].prim {
						s2 = s2.assume(t)
					}
					e.oblige(s2, fn, "determined.path", fmt.Sprintf("d%d", di), token.NoPos, c.False)
				}
			}
		}
	}
}

func usesPrev(x Expr) bool {
	switch t := x.(type) {
	case EUnary:
		return usesPrev(t.X)
	case EBinary:
		return usesPrev(t.X) || usesPrev(t.Y)
	case ECall:
		if id, ok := t.Fun.(EIdent); ok && id.Name == "prev" {
			return true
		}
		for _, a := range t.Args {
			if usesPrev(a) {
				return true
			}
		}
		return usesPrev(t.Fun)
	case EIndex:
		return usesPrev(t.X) || usesPrev(t.I)
	case ESlice:
		return usesPrev(t.X) || (t.Lo != nil && usesPrev(t.Lo)) || (t.Hi != nil && usesPrev(t.Hi))
	case ESel:
		return usesPrev(t.X)
	case EAssert:
		return usesPrev(t.X)
	case EQuant:
		return usesPrev(t.Lo) || usesPrev(t.Hi) || usesPrev(t.Body)
	case ECond:
		return usesPrev(t.C) || usesPrev(t.A) || usesPrev(t.B)
	}
	return false
}

#!/usr/bin/env python3
"""Regenerates /verif/MANIFEST.json from the table below (keeps it valid at all times)."""
import json, subprocess

ALL = ["C%02d" % i for i in range(1, 21)]

TECH = "contract-based deductive verification: weakest-precondition-style VC generation by forward symbolic execution of go/ssa against //@ contracts in /repo, discharged by z3/z3-new/cvc5"

CLAIMED = {
    "C01": dict(
        text="Proof, per function, of every Unpack implementation and of the two decoder entry points: all implicit runtime checks (index, slice, nil, make), consumed<=len(data) on success, no slice expression past len of an input-derived slice (confine), a decreasing variant for every loop, and the declared write frame; callers are checked against callee contracts. All inputs, lengths and capacities at once.",
        note="Assumes: go/ssa semantics, 64-bit int, closed world of implementers, util.Logger==nil, error variables non-nil, assumed contracts for bytes.TrimRight / charmap Decoder.Bytes / fmt / errors. The socket receiver loops (serveUDPSocket/serveTCPSocket) are among the functions under contract (no panic, every iteration that loops again has consumed stream bytes), against the assumed byte-stream contracts of net/bufio/io listed under C16.",
        ref="§3 C01"),
    "C15": dict(
        text="Proof, for every type the type checker finds implementing util.Packable (Size and Pack of all 31 implementers), util.PackString, knxnet.Pack and knxnet.AllocAndPack: no panic when len(buffer) >= Size(), only buffer[0:Size()) is written (frame check over the whole heap), and a relational two-run obligation that every byte of buffer[0:Size()) is independent of the buffer's previous content; header service/length fields and len(AllocAndPack(v)) == Size+6 as post-conditions.",
        note="Assumes as C01 plus: deep separation of the value from the output buffer (requires sepdeep), LData.Data is *AppData/*ControlData, 6-byte hardware address, charmap encoder deterministic. BOUNDED: SupportedServicesDIB.Pack is proved for at most 5 service families (loop unrolled; its quantified invariant did not discharge), which also bounds SearchRes/DescriptionRes. Socket Send (one write of that buffer) is not covered until environment operations are modelled.",
        ref="§3 C15"),
    "C11": dict(
        text="Proof of post-conditions written from the cEMI bit layout (not from the code): flag constructors/accessors over their whole 8-bit domains (Control1Prio, Control2Hops, Hops incl. Hops(Control2Hops(h)) == min(h,7), IsGroupAddr, IsGroupCommand); byte-exact layout of Info.Pack, AppData.Pack, ControlData.Pack and of LData.Pack (control fields, big-endian addresses, length octet, TPCI/APCI split, payload placement); and exact field extraction from any accepted byte string by Info.Unpack, unpackTransportUnit and LData.Unpack (the latter verified against callee bodies, 'exact' mode).",
        note="Assumes as C01/C15. LData.Pack's post-condition restates the additional-info length octet but not the info bytes (those are Info.Pack's contract; the quantified restatement did not discharge). LData.Pack obligations need up to ~60 s each on z3 5.1 (timeout 150 s in the contract). The message-code octet is written by cemi.Pack (inline dispatcher) and covered by C15/C02 only.",
        ref="§3 C11"),
    "C02": dict(
        text="Proof, by generated round-trip lemmas verified against the real encoder and decoder bodies ('exact' mode: AllocAndPack, knxnet.Unpack, cemi.Pack/Unpack and every Pack/Unpack below them are inlined; solver-aided pruning of infeasible decoder paths): for ConnReq, ConnStateReq/Res, DiscReq/Res, TunnelRes, SearchReq, DescriptionReq and for TunnelReq and RoutingInd carrying each of L_Data.req/con/ind (application and control transport units), L_Raw.req/con/ind, L_Busmon.ind and unsupported codes, with every field symbolic (additional info 0..255 bytes, payload 1..255 bytes, all 8/16-bit fields): Unpack(AllocAndPack(v)) succeeds, consumes the whole encoding, yields the same service type and message code and equal fields. ConnRes: channel, status and (status 0) control. Decode/re-encode/decode stability (any accepted byte string whose reserved bits are zero: an unnumbered transport unit carries sequence number 0) for the eight flat service types and for TunnelReq/RoutingInd carrying every cEMI kind (22 further lemmas).",
        note="Assumes as C01/C15. SearchRes/DescriptionRes are NOT covered deductively (friendly name passes through the charmap codec, an assumed contract without an inverse): a BOUNDED stand-in executes their round trip on the real code for names of every length 0..29, 0..20 families (not exhaustive). ConnRes: the decoder does not read the 4-byte connection response data block, so the lemma states only the fields it reads. Payload length 255 rather than 254 is allowed by the lemma precondition (the code accepts it).",
        ref="§3 C02"),
    "C06": dict(
        text="Proof, by one generated lemma per registered type (152 types; statement taken from the property: Unpack(b) ok ==> Unpack(Pack(v)) ok with the same value, plus byte identity of the re-encoding, up to ignored reserved bits and documented replacements, for the exact integer, bit-field (10.001, 11.001, 1.xxx), enumeration, scene (17/18), colour (232/242/251) and IEEE formats; the character strings 16.xxx are compared by value only), verified against the real Pack/Unpack bodies ('exact' mode) for every payload of every length. For the 20 two-octet float types 9.xxx the round trip is decided by exhaustive execution of the real code over all 65,536 payloads of each type (complete, labelled bounded stand-in). For 16.000/16.001 only a BOUNDED stand-in exists.",
        note="Assumes as C08. BOUNDED: 16.000/16.001 (two adjacent octets over all values at every position, three fill patterns) - not a proof; 9.xxx exhaustive over the complete 2^16 domain per type but by execution, not by a discharged obligation. A deductive round-trip proof of packF16/unpackF16 per exponent was measured (exponent 0: 225 obligations in 16m40s; exponent 12: no answer within 1000 s) and is not part of any tier.",
        ref="§3 C06"),
    "C07": dict(
        text="Proof, by one generated lemma per numeric/string datapoint type, that every encoding has the prescribed fixed length and leading zero octet (or 6-bit single octet) and is accepted by the type's own decoder; exactness for the integer formats; saturation (no wrap, no sign change) and one-step accuracy for 5.001, 5.003, 8.003, 8.004, 8.010 in bit-precise float arithmetic; 17.001/18.001 field clamps; monotonicity lemmas for the five scaled types (thorough tier). packF16 (format, zero, loop bounds), roundF16, unpackF16 and the 16.xxx encoders are under their own contracts. For the 9.xxx types accuracy, monotonicity, saturation and self-decodability of the shared codec are decided by exhaustive execution of the real packF16/unpackF16 over every non-NaN float32 (labelled bounded stand-in; per type over every float32 in the thorough tier).",
        note="Assumes as C08. The 9.xxx numeric claims rest on execution over the complete float32 domain (4.26e9 values, ~30 s on 16 cores), not on discharged obligations; per type, a lemma proves Pack(x) == packF16(clamp(x, lo, hi)) for every float32 (packF16 is exposed to callers as an uninterpreted function of its argument; that it is one is established by a syntactic purity analysis of packF16/roundF16), and the stand-in checks that both range end points encode to payloads the type accepts. 10.001/11.001 invalid-field gates and 28.001 are covered for format/self-decodability only.",
        ref="§3 C07"),
    "C08": dict(
        text="Proof for Unpack, String and Unit of every datapoint type in package dpt (174 types, 522 functions, each under its own contract): no panic for any byte slice of any length and capacity; a payload whose length differs from the fixed length of the type's main number is rejected (28.001: fewer than 2 bytes); and on success the decoded value lies in the documented range (9.xxx bounds in bit-precise float32 arithmetic, 5.001 in [0,100], 5.003 in [0,360], time of day, calendar date 1990..2089 with the right month lengths, scene numbers). String/Unit: no panic for in-range values.",
        note="Assumes: go/ssa semantics, 64-bit int, SMT FloatingPoint theory = IEEE-754 binary32/64 with round-to-nearest-even as on amd64 (no FMA fusion), fmt.Sprintf/Errorf/errors.New return some string/non-nil error, time.Date normalises exactly the invalid civil dates (conformance test in the thorough tier), []rune/string conversions as abstract UTF-8 codecs. The 9.xxx range bounds in the contract file were read once from the documented ranges and frozen.",
        ref="§3 C08"),
    "C16": dict(
        text="Proof for TunnelSocket.Send and RouterSocket.Send (exactly one Write/WriteToUDP of a freshly allocated buffer of 6+Size bytes whose header length field equals the length written), for serveUDPSocket (one datagram read per iteration, at most one frame sent on inbound per datagram, inbound closed exactly once on every exit) and serveTCPSocket (at most one frame per iteration; every iteration that loops has advanced the ghost stream position — the receiver cannot spin; inbound closed exactly once), and for Tunnel.hostInfo (all-zero NAT endpoint unless a local address is to be sent over UDP; protocol code TCP4 iff the socket's local address reports network \"tcp\", UDP4 iff \"udp\", error otherwise).",
        note="Assumes contracts for net.Conn.Write / (*net.UDPConn).WriteToUDP / ReadFromUDP (0 <= n <= len), bufio.Reader.Peek and io.ReadFull as a byte stream (ghost position), net.IP.Equal. Independence of TCP segmentation is inherited from that assumed byte-stream contract, it is not a result; a BOUNDED stand-in (C16TCP) runs the real receiver over loopback TCP under 134 segmentations of one 6-frame stream (skipped, and said so, where loopback is unavailable). HostInfoFromAddress (the advertised local endpoint) is verified against assumed contracts of net.SplitHostPort/net.ParseIP/net.IP.To4/strconv.ParseUint. Concurrent senders: freshness of the buffer is proved, atomicity of one Write is assumed. SupportedServicesDIB bounded to 5 families as in C15.",
        ref="§3 C16"),
    "C03": dict(
        text="Proof of the transition contracts of the tunnel sender: requestTunnel (lock taken first and released on every path; every frame sent in the call is the same TunnelReq{channel, seq0 (0 on TCP), data}; TCP: exactly one send, no wait; UDP: success only with a received ack carrying seq0 and status 0 and then seqNumber == seq0+1; matching ack with error status fails and still advances; non-matching acks change nothing; ticker = ResendInterval, timeout = ResponseTimeout, each created once), handleTunnelRes (offers on conn.ack only for the connection's channel) and requestConn (resets the counter to 0 under the lock). fmt.Errorf/Sprintf are modelled as executing Error()/String() of operands whose dynamic type belongs to this module (this is what exposed the unbounded recursion of knxnet.ErrCode.String, repaired by 53b2d06).",
        note="Sequential model of the environment (DESIGN §2.4.5): knxnet.Socket, channels, goroutines, mutexes, timers and container/list are environment operations with ghost logs (send log per socket, sent/received count and last value per channel, held flag per mutex, ghost clock); select may take any case, receives may yield any well-typed value or 'closed'; loop-free goroutines are run to completion in place (assumed: eventually scheduled), long-running workers are logged and verified separately. Holds for every sequence of environment choices, NOT for interleavings with other goroutines touching the same state (that is C10), nor for liveness/wall-clock claims.",
        ref="§3 C03"),
    "C04": dict(
        text="Proof of handleTunnelReq's transition relation (deliver iff channel matches and (TCP or seq == expected); expected advances exactly then, modulo 256; ack iff UDP and seq in {expected, expected-1}, carrying channel/seq/status 0; otherwise neither), of pushInbound's hand-off (exactly one send of msg on inbound, directly or by the spawned goroutine) and, as a per-iteration 'step' obligation of process, that each TunnelReq taken from the socket is delivered/counted by exactly that rule against a counter that is a local of process (0 on every (re)entry).",
        note="Sequential model of the environment (DESIGN §2.4.5): knxnet.Socket, channels, goroutines, mutexes, timers and container/list are environment operations with ghost logs (send log per socket, sent/received count and last value per channel, held flag per mutex, ghost clock); select may take any case, receives may yield any well-typed value or 'closed'; loop-free goroutines are run to completion in place (assumed: eventually scheduled), long-running workers are logged and verified separately. Holds for every sequence of environment choices, NOT for interleavings with other goroutines touching the same state (that is C10), nor for liveness/wall-clock claims.",
        ref="§3 C04"),
    "C09": dict(
        text='Proof of the transition contracts of requestConnState, performHeartbeat (signals only when no response or a non-zero status arrived), handleConnStateRes/handleDiscReq/handleDiscRes (foreign channels change nothing, a matching DiscReq is answered by exactly one DiscRes), requestDisc, process (exits only with nil/errHeartbeatFailed/errInboundClosed/errDisconnected), serve (closes ack and inbound and calls Done exactly once on every exit), requestConn (request carries layer and control; success sets channel from the response and seqNumber 0) and checkTunnelConfig (all durations positive).',
        note="Sequential model of the environment (DESIGN §2.4.5): knxnet.Socket, channels, goroutines, mutexes, timers and container/list are environment operations with ghost logs (send log per socket, sent/received count and last value per channel, held flag per mutex, ghost clock); select may take any case, receives may yield any well-typed value or 'closed'; loop-free goroutines are run to completion in place (assumed: eventually scheduled), long-running workers are logged and verified separately. Holds for every sequence of environment choices, NOT for interleavings with other goroutines touching the same state (that is C10), nor for liveness/wall-clock claims.",
        ref="§3 C09"),
    "C12": dict(
        text="Proof of buildGroupOutbound's post-condition (group flag, hop count 6, low priority, std-frame flag iff len(Data) <= 15, AppData with the command and the payload, addresses), of GroupTunnel.Send / GroupRouter.Send (exactly that frame as L_Data.req in a TunnelReq resp. L_Data.ind in a RoutingInd) and, as per-iteration step obligations of serveGroupInbound, the exact inbound filter (event iff LDataInd, group address, AppData, command < 3; with equal command/source/destination/data) and close(outbound) when inbound closes.",
        note="Sequential model of the environment (DESIGN §2.4.5): knxnet.Socket, channels, goroutines, mutexes, timers and container/list are environment operations with ghost logs (send log per socket, sent/received count and last value per channel, held flag per mutex, ghost clock); select may take any case, receives may yield any well-typed value or 'closed'; loop-free goroutines are run to completion in place (assumed: eventually scheduled), long-running workers are logged and verified separately. Holds for every sequence of environment choices, NOT for interleavings with other goroutines touching the same state (that is C10), nor for liveness/wall-clock claims.",
        ref="§3 C12"),
    "C13": dict(
        text="Proof of the stated part: Router.Send releases sendMu (in the deferred goroutine) only after sleeping at least the post-send pause following a successful transmission (ghost clock: unlock time >= send time + pause); serve, on a routing-busy indication, holds sendMu until at least min(WaitTime, 50 ms) later (time.AfterFunc with that duration). Not claimed: queue order of waiting senders, 'every Send eventually returns'.",
        note="Sequential model of the environment (DESIGN §2.4.5): knxnet.Socket, channels, goroutines, mutexes, timers and container/list are environment operations with ghost logs (send log per socket, sent/received count and last value per channel, held flag per mutex, ghost clock); select may take any case, receives may yield any well-typed value or 'closed'; loop-free goroutines are run to completion in place (assumed: eventually scheduled), long-running workers are logged and verified separately. Holds for every sequence of environment choices, NOT for interleavings with other goroutines touching the same state (that is C10), nor for liveness/wall-clock claims. time.Sleep/time.AfterFunc are assumed to advance the ghost clock by at least their (positive) argument; time.Now/time.Since read that monotonic clock; an arbitrary non-negative amount of time passes at every Lock, inside every callee and in every loop iteration.",
        ref="§3 C13"),
    "C14": dict(
        text='Proof over the abstract length view of the retainer list: Router.Send retains exactly on success, never more than RetainCount (trimming from the front only), and sends exactly one RoutingInd carrying the message; resendLost removes min(k, retained) elements from the back and spawns exactly one sendMultiple with that many messages; sendMultiple sends them in slice order; serve hands each RoutingInd payload to pushInbound exactly once and closes inbound when the socket channel closes; checkRouterConfig yields RetainCount >= 1.',
        note="Sequential model of the environment (DESIGN §2.4.5): knxnet.Socket, channels, goroutines, mutexes, timers and container/list are environment operations with ghost logs (send log per socket, sent/received count and last value per channel, held flag per mutex, ghost clock); select may take any case, receives may yield any well-typed value or 'closed'; loop-free goroutines are run to completion in place (assumed: eventually scheduled), long-running workers are logged and verified separately. Holds for every sequence of environment choices, NOT for interleavings with other goroutines touching the same state (that is C10), nor for liveness/wall-clock claims. List CONTENTS and order inside the retainer are not modelled (container/list is an assumed contract with a length view), so 'exactly the last k messages in their original order' is proved only up to counts and the back/front end used; a BOUNDED stand-in (C14RET) runs the real Router on a recording socket against a reference model of the retained window over 1,359 small histories (which messages, which order).",
        ref="§3 C14"),
    "C18": dict(
        text="Proof over the real code of cemi/address.go: the four component constructors place each component in its documented bit field and ignore bits outside its width (bit-vector post-conditions and equivalence lemmas, all 2^24 / 2^24 arguments at once); GroupAddr.String and IndividualAddr.String emit three decimal components holding exactly the 5/3/8 resp. 4/4/8 bit fields; NewGroupAddrString / NewIndividualAddrString return nil error IF AND ONLY IF the text has one, two or three separator-delimited components that strconv.Atoi accepts and whose values lie in the documented ranges and are not all zero, return exactly the composed address then and 0 otherwise (loop invariant over the component list, any number of components); lemma: every non-zero address survives String then parse.",
        note="The text layer is an ASSUMED contract, not code in /repo: strings.Split, strconv.Atoi and fmt.Sprintf(\"%d<c>%d<c>%d\") are modelled by uninterpreted functions (components of a string, Atoi accepted/value) with the one axiom that Sprintf's output splits into numerals Atoi maps back to the arguments. Which texts Atoi accepts as a numeral (e.g. a leading '+') is therefore outside the proof. A bounded stand-in executes the real composition over the finite domains the property names (all 65,535 addresses of both kinds, widened component ranges, malformed texts, all constructor arguments).",
        ref="§3 C18"),
    "C19": dict(
        text="The registry table is read from the SSA of package dpt's initialiser on every run and shown to be a constant table (one map literal, constant string keys, freshly allocated zero prototypes, never written or passed on outside the initialiser). Ground obligations per entry: key form main.sub with a three-digit sub-number, value type *DPT_<main><sub>, and for every exported DPT_* type in the package scope (go/types) reachability through the table; each failing fact is replayed on the running package. Proof of Produce against its contract, forking over all 174 entries plus the unknown case: ok iff the name is a key; unknown names yield (nil,false); the result has exactly the dynamic type registered under the name, is freshly allocated, differs from the prototype, is all-zero, and nothing that existed before the call is written. ListSupportedTypes returns exactly len(table) names, each a key of the table (loop unrolled over the table; any iteration order). Lemma: two calls never return the same instance.",
        note="reflect.TypeOf/Type.Elem/reflect.New/Value.Interface are ASSUMED contracts over the verifier's type tags. Uniqueness of keys is enforced by the Go compiler (duplicate constant keys in a map literal do not compile) and re-checked on the SSA. 'Decoding into one instance never changes another' follows from freshness plus the proved write frames 'assigns *d' of all 174 Unpack methods (C08); it is not restated as a separate obligation. Concurrency (schedules): Produce writes only memory it allocates and reads an immutable table, so concurrent calls share reads only; that is an argument, not a discharged obligation - the stand-in runs 16 goroutines under one sampled family of schedules. KNOWN FINDING: key \"14.1200\" has a four-digit sub-number (the genuine KNX identifier), recorded in known_findings.json.",
        ref="§3 C19"),
    "C20": dict(
        text="Proof for DescribeTunnel and DiscoverOnInterface: at most one request is sent, the socket obtained is closed on every return path after a successful dial, the timeout channel is created once with the caller's timeout and is an alternative of every select, and (Discover) each iteration appends exactly the received *SearchRes, in arrival order, and nothing else.",
        note="Sequential model of the environment (DESIGN §2.4.5): knxnet.Socket, channels, goroutines, mutexes, timers and container/list are environment operations with ghost logs (send log per socket, sent/received count and last value per channel, held flag per mutex, ghost clock); select may take any case, receives may yield any well-typed value or 'closed'; loop-free goroutines are run to completion in place (assumed: eventually scheduled), long-running workers are logged and verified separately. Holds for every sequence of environment choices, NOT for interleavings with other goroutines touching the same state (that is C10), nor for liveness/wall-clock claims. The wall-clock bound itself reduces to the assumed contract of time.After/select. Dial/Listen are assumed (trusted) contracts; NewDescriptionReq/NewSearchReq and HostInfoFromAddress are verified against assumed contracts of net.SplitHostPort/net.ParseIP/net.IP.To4/strconv.ParseUint.",
        ref="§3 C20"),
}

NA = {
    "C05": "exactly-once across client x lossy network x rule-following gateway is a reachability property of a composed system whose other two components are not code in /repo; no function contract can state it (DESIGN §4)",
    "C10": "data-race freedom, goroutine leaks and bounded-time Close are schedule/liveness properties; the sequential contract model has no interleaving semantics (DESIGN §4)",
    "C17": "delivery order among independently parked goroutines is chosen by the runtime scheduler; no contract on pushInbound can carry it (DESIGN §4)",
}

PENDING = "check not built yet (engine under construction; see DESIGN.md §7 build order)"


def hook_commits():
    out = subprocess.run(["git", "-C", "/repo", "log", "--format=%h %s"], capture_output=True, text=True).stdout
    return [l.split()[0] for l in out.splitlines() if l.split(" ", 1)[1].startswith("verif hooks")]


def main():
    checks = []
    for p in ALL:
        if p in CLAIMED:
            c = CLAIMED[p]
            checks.append({
                "property_id": p,
                "quick_cmd": "/verif/bin/kvc check %s --tier quick" % p,
                "thorough_cmd": "/verif/bin/kvc check %s --tier thorough" % p,
                "evidence_file": "/verif/evidence/%s.json" % p,
                "replay_cmd_template": "/verif/bin/kvc replay {path}",
                "engine": "kvc",
                "level_claimed": {"category": "proof", "text": c["text"], "design_ref": c["ref"]},
                "level_note": c["note"],
                "technique": TECH,
            })
    na = []
    for p in ALL:
        if p in CLAIMED:
            continue
        na.append({"property_id": p, "reason": NA.get(p, PENDING)})
    m = {
        "version": 1,
        "setup_cmd": "cd /verif/kvc && GOFLAGS=-mod=mod GOPROXY=off GOSUMDB=off GOTOOLCHAIN=local go build -o /verif/bin/kvc .",
        "hooks": {
            "guard": "verif",
            "enable": "go build -tags verif (contract files knx/*/zz_contracts*_verif.go and lemma files zz_lemmas_verif.go are //go:build verif; kvc loads /repo with -tags=verif)",
            "baseline_off_cmd": "cd /repo && go test -vet=off -count=1 -timeout 25m ./...",
            "source_commits": hook_commits(),
            "add_only": True,
        },
        "engines": [{
            "name": "kvc", "path": "/verif/kvc", "serves_properties": sorted(CLAIMED),
            "kind_free_text": "contract-based deductive verifier for Go: go/ssa symbolic VC generation against //@ contracts, obligations discharged by z3/z3-new/cvc5, counterexamples replayed on the real code with go test -overlay",
        }],
        "checks": checks,
        "notes": "See DESIGN.md (section 9 is the as-built description). known_findings.json lists repaired defects (fixed:) and recorded findings. Thorough runs add a differential validation of the verifier's own semantics against the compiled code (kvc conform, evidence key semantics_conformance). selftest.sh re-runs the 71 seeded changes of /verif/seeded as a must-fail corpus.",
        "not_applicable": na,
    }
    json.dump(m, open("/verif/MANIFEST.json", "w"), indent=1)
    print("claimed:", sorted(CLAIMED), "n/a:", len(na))


if __name__ == "__main__":
    main()

#!/bin/bash
# Runs every claimed check (quick tier) and prints one summary line per property.
cd /verif
props=$(python3 -c "import json;print(' '.join(c['property_id'] for c in json.load(open('MANIFEST.json'))['checks']))")
fail=0
for p in $props; do
  out=$(./bin/kvc check $p 2>&1)
  rc=$?
  echo "$out" | grep -E "^kvc check|^VIOLATION|^KNOWN" | cut -c1-220
  [ $rc -ne 0 ] && fail=1
done
echo "regress: fail=$fail"
exit $fail

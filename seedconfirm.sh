#!/bin/bash
# usage: seedconfirm.sh <src-dir-with-patch.diff,demo_test.go,meta.json> <seed-id>
# Confirms in a scratch worktree: compiles, existing tests pass, demo fails with / passes without the change.
set -u
export GOFLAGS=-mod=mod GOPROXY=off GOSUMDB=off GOTOOLCHAIN=local
src=$1; id=$2
wt=/tmp/confirm-$$
git -C /repo worktree add --detach $wt HEAD -q || exit 2
trap "git -C /repo worktree remove --force $wt; rm -rf $wt" EXIT
cd $wt
pkgdir=$(head -1 $src/demo_test.go | sed -n 's/.*copy to \([^ ]*\).*/\1/p' | sed 's:/*$::')
[ -z "$pkgdir" ] && { echo "cannot find package dir in demo"; exit 2; }
git apply $src/patch.diff || { echo "APPLY-FAILED"; exit 1; }
go build ./... || { echo "BUILD-FAILED"; exit 1; }
if go test -vet=off -count=1 ./... >/tmp/confirm-tests.log 2>&1; then suite=pass; else suite=FAIL; fi
cp $src/demo_test.go $pkgdir/zz_seed_demo_test.go
if timeout 120 go test -vet=off -count=1 -timeout 60s -run TestSeedDemo ./$pkgdir >/tmp/confirm-with.log 2>&1; then with=pass; else with=fail; fi
git apply -R $src/patch.diff
if timeout 120 go test -vet=off -count=1 -timeout 60s -run TestSeedDemo ./$pkgdir >/tmp/confirm-without.log 2>&1; then without=pass; else without=fail; fi
echo "seed $id: suite-with-change=$suite demo-with-change=$with demo-without-change=$without"
if [ "$suite" = pass ] && [ "$with" = fail ] && [ "$without" = pass ]; then
  mkdir -p /verif/seeded/$id
  cp $src/patch.diff $src/demo_test.go /verif/seeded/$id/
  cp $src/meta.json /verif/seeded/$id/meta.agent.json
  echo CONFIRMED
else
  echo REJECTED; tail -5 /tmp/confirm-tests.log /tmp/confirm-with.log /tmp/confirm-without.log
fi

#!/bin/bash
# usage: seedrun.sh <patch> <prop>...   applies a seeded change to /repo, runs the quick checks, reverts.
set -u
patch=$1; shift
cd /repo || exit 2
if [ -n "$(git status --porcelain)" ]; then echo "refusing: /repo has uncommitted changes"; exit 2; fi
git apply "$patch" || { echo "patch does not apply"; exit 2; }
for p in "$@"; do
  /verif/bin/kvc check $p -noevidence 2>&1 | grep -E "^VIOLATION|^KNOWN|^kvc check" | cut -c1-260
done
git -C /repo checkout -- .
git -C /repo status --short | head -3

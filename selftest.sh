#!/bin/bash
# Must-fail corpus: applies every seeded change in /verif/seeded to /repo in turn, runs the quick
# check(s) of its property and requires a VIOLATION line; then requires a clean pass on the
# unchanged tree. Run after every engine change (takes about an hour on 16 cores).
# usage: selftest.sh [seed-id ...]
cd /verif
ids="$@"
[ -z "$ids" ] && ids=$(ls seeded)
fail=0
for id in $ids; do
  prop=$(python3 -c "import json;print(json.load(open('seeded/$id/meta.json'))['property'])")
  out=$(./seedrun.sh /verif/seeded/$id/patch.diff $prop 2>&1)
  if echo "$out" | grep -q "^VIOLATION property=$prop"; then
    echo "selftest $id ($prop): detected"
  else
    echo "selftest $id ($prop): MISSED"; echo "$out" | tail -n 3; fail=1
  fi
done
echo "selftest: fail=$fail"
exit $fail

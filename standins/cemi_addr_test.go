package cemi

// Bounded stand-in for C18 on the real code, text layer included (the deductive check treats
// fmt.Sprintf / strings.Split / strconv.Atoi as assumed contracts; this run exercises the
// composition with the real library over the finite domains named in the property).

import (
	"fmt"
	"testing"
)

func TestKvcStandinC18(t *testing.T) {
	fail := func(format string, a ...interface{}) {
		fmt.Printf("KVC-STANDIN C18 FAIL "+format+"\n", a...)
		t.FailNow()
	}
	n := 0
	// round trip over all 65,535 non-zero addresses of both kinds
	for a := 1; a <= 65535; a++ {
		g := GroupAddr(a)
		if r, err := NewGroupAddrString(g.String()); err != nil || r != g {
			fail("group address %#04x formats as %q which parses to %#04x, %v", a, g.String(), uint16(r), err)
		}
		i := IndividualAddr(a)
		if r, err := NewIndividualAddrString(i.String()); err != nil || r != i {
			fail("individual address %#04x formats as %q which parses to %#04x, %v", a, i.String(), uint16(r), err)
		}
		n += 2
	}
	// acceptance over component tuples widened by a margin on both sides
	in := func(x, lo, hi int) bool { return lo <= x && x <= hi }
	for a := -3; a <= 35; a++ {
		for b := -3; b <= 19; b++ {
			for c := -3; c <= 259; c++ {
				s := fmt.Sprintf("%d/%d/%d", a, b, c)
				want := in(a, 0, 31) && in(b, 0, 7) && in(c, 0, 255) && !(a == 0 && b == 0 && c == 0)
				r, err := NewGroupAddrString(s)
				if (err == nil) != want || (want && int(r) != a<<11|b<<8|c) || (!want && r != 0) {
					fail("group %q: got %#04x, %v; accepted should be %v", s, uint16(r), err, want)
				}
				s = fmt.Sprintf("%d.%d.%d", a, b, c)
				want = in(a, 0, 15) && in(b, 0, 15) && in(c, 0, 255) && !(a == 0 && b == 0 && c == 0)
				ri, err := NewIndividualAddrString(s)
				if (err == nil) != want || (want && int(ri) != a<<12|b<<8|c) || (!want && ri != 0) {
					fail("individual %q: got %#04x, %v; accepted should be %v", s, uint16(ri), err, want)
				}
				n += 2
			}
		}
	}
	for a := -3; a <= 259; a++ {
		for b := -3; b <= 2051; b++ {
			s := fmt.Sprintf("%d/%d", a, b)
			want := in(a, 0, 31) && in(b, 0, 2047) && !(a == 0 && b == 0)
			r, err := NewGroupAddrString(s)
			if (err == nil) != want || (want && int(r) != a<<11|b) {
				fail("group %q: got %#04x, %v; accepted should be %v", s, uint16(r), err, want)
			}
			s = fmt.Sprintf("%d.%d", a, b)
			want = in(a, 0, 255) && in(b, 0, 255) && !(a == 0 && b == 0)
			ri, err := NewIndividualAddrString(s)
			if (err == nil) != want || (want && int(ri) != a<<8|b) {
				fail("individual %q: got %#04x, %v; accepted should be %v", s, uint16(ri), err, want)
			}
			n += 2
		}
	}
	for a := -3; a <= 65539; a++ {
		s := fmt.Sprintf("%d", a)
		want := in(a, 1, 65535)
		r, err := NewGroupAddrString(s)
		ri, erri := NewIndividualAddrString(s)
		if (err == nil) != want || (erri == nil) != want || (want && (int(r) != a || int(ri) != a)) {
			fail("raw %q: got %#04x, %v / %#04x, %v; accepted should be %v", s, uint16(r), err, uint16(ri), erri, want)
		}
		n += 2
	}
	// malformed texts
	for _, s := range []string{"", "/", "//", "1/", "/1", "1//1", "1/2/3/4", "a/b/c", "1.2.3", "1/2.3", " 1/2/3", "1/2/3 ", "0x1/2/3", "1/2/3/", "1,2,3", "0/0/0", "0/0", "0", "-1", "65536", "1e3"} {
		if r, err := NewGroupAddrString(s); err == nil {
			fail("group parser accepts malformed %q as %#04x", s, uint16(r))
		}
		n++
	}
	for _, s := range []string{"", ".", "..", "1.", ".1", "1..1", "1.2.3.4", "a.b.c", "1/2/3", "1.2/3", " 1.2.3", "1.2.3 ", "0x1.2.3", "1.2.3.", "1,2,3", "0.0.0", "0.0", "0", "-1", "65536", "1e3"} {
		if r, err := NewIndividualAddrString(s); err == nil {
			fail("individual parser accepts malformed %q as %#04x", s, uint16(r))
		}
		n++
	}
	// constructors: every argument combination (2^24 for the 3-level forms)
	for a := 0; a < 256; a++ {
		for b := 0; b < 256; b++ {
			for c := 0; c < 256; c++ {
				if g := NewGroupAddr3(uint8(a), uint8(b), uint8(c)); int(g) != (a&31)<<11|(b&7)<<8|c {
					fail("NewGroupAddr3(%d,%d,%d) = %#04x", a, b, c, uint16(g))
				}
				if i := NewIndividualAddr3(uint8(a), uint8(b), uint8(c)); int(i) != (a&15)<<12|(b&15)<<8|c {
					fail("NewIndividualAddr3(%d,%d,%d) = %#04x", a, b, c, uint16(i))
				}
			}
			if i := NewIndividualAddr2(uint8(a), uint8(b)); int(i) != a<<8|b {
				fail("NewIndividualAddr2(%d,%d) = %#04x", a, b, uint16(i))
			}
		}
		for b := 0; b < 65536; b++ {
			if g := NewGroupAddr2(uint8(a), uint16(b)); int(g) != (a&31)<<11|(b&2047) {
				fail("NewGroupAddr2(%d,%d) = %#04x", a, b, uint16(g))
			}
		}
		n += 65536*3 + 256
	}
	fmt.Printf("KVC-STANDIN C18 ok cases=%d\n", n)
}

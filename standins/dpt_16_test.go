package dpt

// Bounded stand-in for the C06 round trip of the 14-character string types 16.000 / 16.001.
// NOT exhaustive over the 2^112 payloads: the bound is stated in the KVC-STANDIN line and in
// the evidence. The deductive lemma for these two types runs out of the path budget (the
// conversions string <-> []rune inside two unrolled 14-step loops).

import (
	"fmt"
	"testing"
)

func TestKvcStandinC0616(t *testing.T) {
	for _, n := range ListSupportedTypes() {
		if len(n) > 3 && n[:3] == "16." && n != "16.000" && n != "16.001" {
			fmt.Printf("KVC-STANDIN C0616 UNCOVERED registered type %s is not covered by this stand-in\n", n)
			t.FailNow()
		}
	}
	cases := 0
	check := func(name string, mk func() DatapointValue, str func(DatapointValue) string, b []byte) {
		v := mk()
		if v.Unpack(b) != nil {
			return
		}
		cases++
		p := v.Pack()
		w := mk()
		if err := w.Unpack(p); err != nil || str(w) != str(v) {
			fmt.Printf("KVC-STANDIN C0616 FAIL type=%s payload=% x decoded=%q repacked=% x err=%v redecoded=%q\n", name, b, str(v), p, err, str(w))
			t.FailNow()
		}
	}
	types := []struct {
		name string
		mk   func() DatapointValue
		str  func(DatapointValue) string
	}{
		{"DPT_16000", func() DatapointValue { return new(DPT_16000) }, func(d DatapointValue) string { return string(*d.(*DPT_16000)) }},
		{"DPT_16001", func() DatapointValue { return new(DPT_16001) }, func(d DatapointValue) string { return string(*d.(*DPT_16001)) }},
	}
	for _, ty := range types {
		for _, fill := range []byte{0x00, 'A', 0xE9} {
			for pos := 1; pos <= 13; pos++ {
				for x := 0; x < 256; x++ {
					for y := 0; y < 256; y++ {
						b := make([]byte, 15)
						for i := 1; i < 15; i++ {
							b[i] = fill
						}
						b[pos], b[pos+1] = byte(x), byte(y)
						check(ty.name, ty.mk, ty.str, b)
					}
				}
			}
		}
	}
	fmt.Printf("KVC-STANDIN C0616 ok cases=%d bound: 15-byte payloads of 16.000 and 16.001 in which two adjacent octets range over all 65,536 values at every position and the other octets are all 0x00, all 'A' or all 0xE9\n", cases)
}

package dpt

// Bounded stand-ins for the two-octet float types (DPT 9.xxx): exhaustive execution of the
// REAL code over complete finite domains. They are labelled "bounded (exhaustive)" in the
// evidence and are never counted as deductively proved obligations.
//
//   TestKvcStandinC06F16   every one of the 65,536 payloads of every 9.xxx type:
//                          accepted  ==>  re-encoding is accepted and decodes to the same value
//   TestKvcStandinC07F16   every float32 (all 2^32 bit patterns, NaN skipped) through the shared
//                          codec: format, self-decodable, accuracy within one step, monotone,
//                          saturation at the codec limits; and per type: range end points.
//   TestKvcStandinC07F16Types (thorough) every float32 through every 9.xxx type.

import (
	"fmt"
	"math"
	"os"
	"runtime"
	"sync"
	"testing"
)

type f16type struct {
	name string
	mk   func() DatapointValue
	lo   float32
	hi   float32
	get  func(DatapointValue) float32
	set  func(float32) DatapointValue
}

func f16types() []f16type {
	var out []f16type
	add := func(name string, lo, hi float32, mk func() DatapointValue, get func(DatapointValue) float32, set func(float32) DatapointValue) {
		out = append(out, f16type{name, mk, lo, hi, get, set})
	}
	add("DPT_9001", -273, 670760, func() DatapointValue { return new(DPT_9001) }, func(d DatapointValue) float32 { return float32(*d.(*DPT_9001)) }, func(f float32) DatapointValue { v := DPT_9001(f); return &v })
	add("DPT_9002", -670760, 670760, func() DatapointValue { return new(DPT_9002) }, func(d DatapointValue) float32 { return float32(*d.(*DPT_9002)) }, func(f float32) DatapointValue { v := DPT_9002(f); return &v })
	add("DPT_9003", -670760, 670760, func() DatapointValue { return new(DPT_9003) }, func(d DatapointValue) float32 { return float32(*d.(*DPT_9003)) }, func(f float32) DatapointValue { v := DPT_9003(f); return &v })
	add("DPT_9004", 0, 670760, func() DatapointValue { return new(DPT_9004) }, func(d DatapointValue) float32 { return float32(*d.(*DPT_9004)) }, func(f float32) DatapointValue { v := DPT_9004(f); return &v })
	add("DPT_9005", 0, 670760, func() DatapointValue { return new(DPT_9005) }, func(d DatapointValue) float32 { return float32(*d.(*DPT_9005)) }, func(f float32) DatapointValue { v := DPT_9005(f); return &v })
	add("DPT_9006", 0, 670760, func() DatapointValue { return new(DPT_9006) }, func(d DatapointValue) float32 { return float32(*d.(*DPT_9006)) }, func(f float32) DatapointValue { v := DPT_9006(f); return &v })
	add("DPT_9007", 0, 670760, func() DatapointValue { return new(DPT_9007) }, func(d DatapointValue) float32 { return float32(*d.(*DPT_9007)) }, func(f float32) DatapointValue { v := DPT_9007(f); return &v })
	add("DPT_9008", 0, 670760, func() DatapointValue { return new(DPT_9008) }, func(d DatapointValue) float32 { return float32(*d.(*DPT_9008)) }, func(f float32) DatapointValue { v := DPT_9008(f); return &v })
	add("DPT_9010", -670760, 670760, func() DatapointValue { return new(DPT_9010) }, func(d DatapointValue) float32 { return float32(*d.(*DPT_9010)) }, func(f float32) DatapointValue { v := DPT_9010(f); return &v })
	add("DPT_9011", -670760, 670760, func() DatapointValue { return new(DPT_9011) }, func(d DatapointValue) float32 { return float32(*d.(*DPT_9011)) }, func(f float32) DatapointValue { v := DPT_9011(f); return &v })
	add("DPT_9020", -670760, 670760, func() DatapointValue { return new(DPT_9020) }, func(d DatapointValue) float32 { return float32(*d.(*DPT_9020)) }, func(f float32) DatapointValue { v := DPT_9020(f); return &v })
	add("DPT_9021", -670760, 670760, func() DatapointValue { return new(DPT_9021) }, func(d DatapointValue) float32 { return float32(*d.(*DPT_9021)) }, func(f float32) DatapointValue { v := DPT_9021(f); return &v })
	add("DPT_9022", -670760, 670760, func() DatapointValue { return new(DPT_9022) }, func(d DatapointValue) float32 { return float32(*d.(*DPT_9022)) }, func(f float32) DatapointValue { v := DPT_9022(f); return &v })
	add("DPT_9023", -670760, 670760, func() DatapointValue { return new(DPT_9023) }, func(d DatapointValue) float32 { return float32(*d.(*DPT_9023)) }, func(f float32) DatapointValue { v := DPT_9023(f); return &v })
	add("DPT_9024", -670760, 670760, func() DatapointValue { return new(DPT_9024) }, func(d DatapointValue) float32 { return float32(*d.(*DPT_9024)) }, func(f float32) DatapointValue { v := DPT_9024(f); return &v })
	add("DPT_9025", -670760, 670760, func() DatapointValue { return new(DPT_9025) }, func(d DatapointValue) float32 { return float32(*d.(*DPT_9025)) }, func(f float32) DatapointValue { v := DPT_9025(f); return &v })
	add("DPT_9026", -670760, 670760, func() DatapointValue { return new(DPT_9026) }, func(d DatapointValue) float32 { return float32(*d.(*DPT_9026)) }, func(f float32) DatapointValue { v := DPT_9026(f); return &v })
	add("DPT_9027", -459.6, 670760, func() DatapointValue { return new(DPT_9027) }, func(d DatapointValue) float32 { return float32(*d.(*DPT_9027)) }, func(f float32) DatapointValue { v := DPT_9027(f); return &v })
	add("DPT_9028", 0, 670760, func() DatapointValue { return new(DPT_9028) }, func(d DatapointValue) float32 { return float32(*d.(*DPT_9028)) }, func(f float32) DatapointValue { v := DPT_9028(f); return &v })
	add("DPT_9029", 0, 670760, func() DatapointValue { return new(DPT_9029) }, func(d DatapointValue) float32 { return float32(*d.(*DPT_9029)) }, func(f float32) DatapointValue { v := DPT_9029(f); return &v })
	return out
}

// every registered 9.xxx type must be in the table above
func f16Uncovered() string {
	have := map[string]bool{}
	for _, ty := range f16types() {
		have[ty.name] = true
	}
	for _, n := range ListSupportedTypes() {
		if len(n) > 2 && n[:2] == "9." {
			tn := "DPT_9" + n[2:]
			if !have[tn] {
				return tn
			}
		}
	}
	return ""
}

func TestKvcStandinC06F16(t *testing.T) {
	if u := f16Uncovered(); u != "" {
		fmt.Printf("KVC-STANDIN C06F16 UNCOVERED registered type %s is not covered by this stand-in\n", u)
		t.FailNow()
	}
	cases := 0
	for _, ty := range f16types() {
		for hi := 0; hi < 256; hi++ {
			for lo := 0; lo < 256; lo++ {
				b := []byte{0, byte(hi), byte(lo)}
				v := ty.mk()
				if v.Unpack(b) != nil {
					continue
				}
				cases++
				p := v.Pack()
				w := ty.mk()
				if err := w.Unpack(p); err != nil || ty.get(w) != ty.get(v) {
					fmt.Printf("KVC-STANDIN C06F16 FAIL type=%s payload=% x decoded=%v repacked=% x err=%v redecoded=%v\n", ty.name, b, ty.get(v), p, err, ty.get(w))
					t.FailNow()
				}
			}
		}
	}
	fmt.Printf("KVC-STANDIN C06F16 ok types=%d accepted_payloads=%d of %d\n", len(f16types()), cases, len(f16types())*65536)
}

func decF16bytes(p []byte) float32 {
	var f float32
	unpackF16(p, &f)
	return f
}

// every float32 in increasing order: index i in [0, 2^32) maps monotonically to a float
func orderedFloat(i uint64) float32 {
	// i < 2^31: negative floats from -max down... map so that increasing i = increasing value
	if i < 1<<31 {
		return math.Float32frombits(uint32((1<<32 - 1) - i)) // 0xFFFFFFFF (-NaN..) down to 0x80000000 (-0)
	}
	return math.Float32frombits(uint32(i - 1<<31)) // +0 up to +NaN
}

func codecCheck(f float32, prev *float32, havePrev *bool) string {
	p := packF16(f)
	if len(p) != 3 || p[0] != 0 {
		return "format"
	}
	var d float32
	if unpackF16(p, &d) != nil {
		return "self-decodable"
	}
	// saturation at the codec limits
	// saturation beyond the widest documented range of the 9.xxx types, [-670760, 670760]
	if f >= 670760 && d != decF16bytes(packF16(670760)) {
		return "saturation-high"
	}
	if f <= -670760 && d != decF16bytes(packF16(-670760)) {
		return "saturation-low"
	}
	if f <= 670760 && f >= -670760 {
		// one quantisation step at the magnitude of the result: 0.01 * 2^exp
		e := (p[1] >> 3) & 15
		step := 0.01 * float64(uint(1)<<e)
		if math.Abs(float64(d)-float64(f)) > step*1.0001+1e-9 {
			return fmt.Sprintf("accuracy (|%v-%v| > %v)", d, f, step)
		}
	}
	if *havePrev && d < *prev {
		return fmt.Sprintf("monotone (previous decoded %v)", *prev)
	}
	*prev, *havePrev = d, true
	return ""
}

func TestKvcStandinC07F16(t *testing.T) {
	if u := f16Uncovered(); u != "" {
		fmt.Printf("KVC-STANDIN C07F16 UNCOVERED registered type %s is not covered by this stand-in\n", u)
		t.FailNow()
	}
	workers := runtime.NumCPU()
	const total = uint64(1) << 32
	chunk := total / uint64(workers)
	var wg sync.WaitGroup
	var mu sync.Mutex
	fail := ""
	firstD := make([]float32, workers)
	lastD := make([]float32, workers)
	for w := 0; w < workers; w++ {
		wg.Add(1)
		go func(w int) {
			defer wg.Done()
			lo := uint64(w) * chunk
			hi := lo + chunk
			if w == workers-1 {
				hi = total
			}
			var prev float32
			have := false
			first := true
			for i := lo; i < hi; i++ {
				f := orderedFloat(i)
				if f != f {
					continue
				}
				if msg := codecCheck(f, &prev, &have); msg != "" {
					mu.Lock()
					if fail == "" {
						fail = fmt.Sprintf("input=%v (bits %#08x): %s", f, math.Float32bits(f), msg)
					}
					mu.Unlock()
					return
				}
				if first {
					firstD[w] = prev
					first = false
				}
			}
			lastD[w] = prev
		}(w)
	}
	wg.Wait()
	if fail == "" {
		// monotone across chunk boundaries
		for w := 1; w < workers; w++ {
			if firstD[w] < lastD[w-1] {
				fail = fmt.Sprintf("monotone across chunk %d", w)
			}
		}
	}
	if fail != "" {
		fmt.Printf("KVC-STANDIN C07F16 FAIL %s\n", fail)
		t.FailNow()
	}
	// per type: the encodings of the range end points decode inside the range (with the codec
	// being monotone this puts every in-range value inside the range after a round trip)
	for _, ty := range f16types() {
		for _, x := range []float32{ty.lo, ty.hi} {
			p := ty.set(x).Pack()
			w := ty.mk()
			if err := w.Unpack(p); err != nil {
				fmt.Printf("KVC-STANDIN C07F16 FAIL type=%s bound=%v encodes to % x which the type rejects: %v\n", ty.name, x, p, err)
				t.FailNow()
			}
		}
	}
	fmt.Printf("KVC-STANDIN C07F16 ok float32_values=%d (all non-NaN bit patterns) types_endpoints=%d\n", total-(1<<24-1)*2, len(f16types())*2)
}

func TestKvcStandinC07F16Types(t *testing.T) {
	if os.Getenv("KVC_THOROUGH") == "" {
		t.Skip("thorough tier only")
	}
	workers := runtime.NumCPU()
	const total = uint64(1) << 32
	for _, ty := range f16types() {
		chunk := total / uint64(workers)
		var wg sync.WaitGroup
		var mu sync.Mutex
		fail := ""
		decOf := func(x float32) float32 { v := ty.mk(); v.Unpack(ty.set(x).Pack()); return ty.get(v) }
		hiD, loD := decOf(ty.hi), decOf(ty.lo)
		for w := 0; w < workers; w++ {
			wg.Add(1)
			go func(w int) {
				defer wg.Done()
				lo, hi := uint64(w)*chunk, uint64(w+1)*chunk
				if w == workers-1 {
					hi = total
				}
				if w > 0 {
					lo-- // overlap by one value: monotone across chunk boundaries
				}
				var prev float32
				have := false
				for i := lo; i < hi; i++ {
					f := orderedFloat(i)
					if f != f {
						continue
					}
					p := ty.set(f).Pack()
					v := ty.mk()
					msg := ""
					if len(p) != 3 || p[0] != 0 {
						msg = "format"
					} else if err := v.Unpack(p); err != nil {
						msg = "self-decodable: " + err.Error()
					} else {
						d := ty.get(v)
						if f >= ty.hi && d != hiD {
							msg = "saturation-high"
						} else if f <= ty.lo && d != loD {
							msg = "saturation-low"
						} else if have && d < prev {
							msg = "monotone"
						} else if f >= ty.lo && f <= ty.hi {
							step := 0.01 * float64(uint(1)<<((p[1]>>3)&15))
							if math.Abs(float64(d)-float64(f)) > step*1.0001+1e-9 {
								msg = fmt.Sprintf("accuracy (decoded %v)", d)
							}
						}
						prev, have = d, true
					}
					if msg != "" {
						mu.Lock()
						if fail == "" {
							fail = fmt.Sprintf("type=%s input=%v: %s", ty.name, f, msg)
						}
						mu.Unlock()
						return
					}
				}
			}(w)
		}
		wg.Wait()
		if fail != "" {
			fmt.Printf("KVC-STANDIN C07F16Types FAIL %s\n", fail)
			t.FailNow()
		}
	}
	fmt.Printf("KVC-STANDIN C07F16Types ok types=%d float32_values_each=%d\n", len(f16types()), total)
}

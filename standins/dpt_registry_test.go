package dpt

// Replay / stand-in for C19 on the real code: the registry facts the verifier reads off the
// initialiser's SSA, re-established by running the package (reflection on produced values,
// go/parser over the package source for the exported DPT_* types), plus instance independence
// under concurrent use from 16 goroutines (a sampled schedule, not a proof).

import (
	"fmt"
	"go/ast"
	"go/parser"
	"go/token"
	"os"
	"reflect"
	"regexp"
	"sort"
	"strings"
	"sync"
	"testing"
)

func TestKvcStandinC19(t *testing.T) {
	fail := func(format string, a ...interface{}) {
		fmt.Printf("KVC-STANDIN C19 FAIL "+format+"\n", a...)
		t.FailNow()
	}
	form := regexp.MustCompile(`^[0-9]+\.[0-9]{3}$`)
	names := ListSupportedTypes()
	sort.Strings(names)
	seen := map[string]bool{}
	typed := map[string]bool{}
	for _, n := range names {
		if seen[n] {
			fail("name %q is listed twice", n)
		}
		seen[n] = true
		if !form.MatchString(n) && strings.Contains(","+os.Getenv("KVC_KNOWN_KEYFORM")+",", ","+n+",") {
			fmt.Printf("KVC-STANDIN C19 known-finding name %q does not have a three-digit sub-number\n", n)
		} else if !form.MatchString(n) {
			fail("name %q does not have the form main.sub with a three-digit sub-number", n)
		}
		d, ok := Produce(n)
		if !ok || d == nil {
			fail("listed name %q cannot be produced", n)
		}
		want := "*dpt.DPT_" + strings.Replace(n, ".", "", 1)
		if got := reflect.TypeOf(d).String(); got != want {
			fail("name %q yields %s, not %s", n, got, want)
		}
		typed[reflect.TypeOf(d).Elem().Name()] = true
		if !reflect.ValueOf(d).Elem().IsZero() {
			fail("name %q yields a non-zero value %v", n, d)
		}
		d2, _ := Produce(n)
		if reflect.ValueOf(d).Pointer() == reflect.ValueOf(d2).Pointer() {
			fail("name %q yields the same instance twice", n)
		}
	}
	for _, n := range []string{"", "1", "1.1", "1.0010", "9.999", "x.yyy", "1.001 ", " 1.001"} {
		if seen[n] {
			continue
		}
		if d, ok := Produce(n); ok || d != nil {
			fail("unknown name %q is produced as %T", n, d)
		}
	}
	// completeness against the package source: every exported DPT_* type declaration
	fset := token.NewFileSet()
	ents, err := os.ReadDir(".")
	if err != nil {
		fail("cannot read the package directory: %v", err)
	}
	declared := 0
	for _, en := range ents {
		fn := en.Name()
		if !strings.HasSuffix(fn, ".go") || strings.HasSuffix(fn, "_test.go") || strings.HasPrefix(fn, "zz_") {
			continue
		}
		f, err := parser.ParseFile(fset, fn, nil, 0)
		if err != nil {
			fail("cannot parse %s: %v", fn, err)
		}
		for _, d := range f.Decls {
			gd, ok := d.(*ast.GenDecl)
			if !ok || gd.Tok != token.TYPE {
				continue
			}
			for _, sp := range gd.Specs {
				ts := sp.(*ast.TypeSpec)
				if strings.HasPrefix(ts.Name.Name, "DPT_") && ts.Name.IsExported() {
					declared++
					if !typed[ts.Name.Name] {
						fail("exported type %s (%s) is not reachable through the registry", ts.Name.Name, fn)
					}
				}
			}
		}
	}
	// instance independence under concurrent use
	var wg sync.WaitGroup
	var mu sync.Mutex
	bad := ""
	for g := 0; g < 16; g++ {
		wg.Add(1)
		go func(g int) {
			defer wg.Done()
			for r := 0; r < 20; r++ {
				for _, n := range names {
					d, _ := Produce(n)
					d.Unpack([]byte{byte(g), 0x11, 0x22, 0x33, 0x44}[:1+(g+r)%5])
					e, _ := Produce(n)
					if !reflect.ValueOf(e).Elem().IsZero() {
						mu.Lock()
						bad = fmt.Sprintf("after decoding into one instance of %s a later instance is %v", n, e)
						mu.Unlock()
					}
				}
			}
		}(g)
	}
	wg.Wait()
	if bad != "" {
		fail("%s", bad)
	}
	fmt.Printf("KVC-STANDIN C19 ok names=%d declared_types=%d goroutines=16\n", len(names), declared)
}

package knx

// Bounded stand-in for the part of C14 that the deductive check covers only up to counts
// (container/list is modelled as a length view): WHICH messages are retained and resent, in
// which order, run on the real Router with a recording socket against a small reference model.
// NOT exhaustive: the bound is in the KVC-STANDIN line.

import (
	"container/list"
	"fmt"
	"net"
	"sync"
	"testing"
	"time"

	"github.com/vapourismo/knx-go/knx/cemi"
	"github.com/vapourismo/knx-go/knx/knxnet"
)

type kvcRecSock struct {
	mu      sync.Mutex
	sent    []cemi.Message
	inbound chan knxnet.Service
}

func (s *kvcRecSock) Send(p knxnet.ServicePackable) error {
	s.mu.Lock()
	defer s.mu.Unlock()
	if ind, ok := p.(*knxnet.RoutingInd); ok {
		s.sent = append(s.sent, ind.Payload)
	}
	return nil
}
func (s *kvcRecSock) Inbound() <-chan knxnet.Service { return s.inbound }
func (s *kvcRecSock) Close() error                   { return nil }
func (s *kvcRecSock) LocalAddr() net.Addr            { return &net.UDPAddr{IP: net.IPv4(127, 0, 0, 1), Port: 3671} }
func (s *kvcRecSock) count() int {
	s.mu.Lock()
	defer s.mu.Unlock()
	return len(s.sent)
}

func TestKvcStandinC14RET(t *testing.T) {
	fail := func(format string, a ...interface{}) {
		fmt.Printf("KVC-STANDIN C14RET FAIL "+format+"\n", a...)
		t.FailNow()
	}
	cases := 0
	run := func(rc, n int, losts []int) {
		sock := &kvcRecSock{inbound: make(chan knxnet.Service)}
		r := &Router{sock: sock, config: checkRouterConfig(RouterConfig{RetainCount: uint(rc)}), inbound: make(chan cemi.Message), retainer: list.New()}
		var want []cemi.Message // reference: everything transmitted, in order
		var win []cemi.Message  // reference: retained window
		send := func(m cemi.Message) {
			want = append(want, m)
			win = append(win, m)
			if len(win) > rc {
				win = win[len(win)-rc:]
			}
		}
		for i := 0; i < n; i++ {
			m := &cemi.LDataInd{LData: cemi.LData{Destination: uint16(i + 1)}}
			if err := r.Send(m); err != nil {
				fail("rc=%d: send %d failed: %v", rc, i, err)
			}
			send(m)
		}
		for _, k := range losts {
			kk := k
			if kk > len(win) {
				kk = len(win)
			}
			again := append([]cemi.Message(nil), win[len(win)-kk:]...)
			win = win[:len(win)-kk]
			for _, m := range again {
				send(m)
			}
			r.resendLost(uint16(k))
			deadline := time.Now().Add(3 * time.Second)
			for sock.count() < len(want) && time.Now().Before(deadline) {
				time.Sleep(50 * time.Microsecond)
			}
			time.Sleep(300 * time.Microsecond) // a faulty router may transmit more than expected
			// wait until the last Send released the lock, then compare the retained window
			r.sendMu.Lock()
			held := r.retainer.Len()
			var have []cemi.Message
			for e := r.retainer.Front(); e != nil; e = e.Next() {
				have = append(have, e.Value.(cemi.Message))
			}
			r.sendMu.Unlock()
			sock.mu.Lock()
			got := append([]cemi.Message(nil), sock.sent...)
			sock.mu.Unlock()
			dst := func(ms []cemi.Message) []uint16 {
				var out []uint16
				for _, m := range ms {
					out = append(out, m.(*cemi.LDataInd).Destination)
				}
				return out
			}
			if len(got) != len(want) {
				fail("retain=%d sends=%d lost=%v: %d transmissions, expected %d: got %v want %v", rc, n, losts, len(got), len(want), dst(got), dst(want))
			}
			for i := range got {
				if got[i] != want[i] {
					fail("retain=%d sends=%d lost=%v: transmissions %v, expected %v", rc, n, losts, dst(got), dst(want))
				}
			}
			if held > rc {
				fail("retain=%d sends=%d lost=%v: %d messages retained", rc, n, losts, held)
			}
			if len(have) != len(win) {
				fail("retain=%d sends=%d lost=%v: retained %v, expected %v", rc, n, losts, dst(have), dst(win))
			}
			for i := range have {
				if have[i] != win[i] {
					fail("retain=%d sends=%d lost=%v: retained %v, expected %v", rc, n, losts, dst(have), dst(win))
				}
			}
		}
		cases++
	}
	for rc := 1; rc <= 5; rc++ {
		for n := 0; n <= 8; n++ {
			for k := 0; k <= 10; k++ {
				run(rc, n, []int{k})
			}
		}
	}
	for rc := 1; rc <= 4; rc++ {
		for n := 0; n <= 5; n++ {
			for k1 := 0; k1 <= 5; k1++ {
				for k2 := 0; k2 <= 5; k2++ {
					run(rc, n, []int{k1, k2})
				}
			}
		}
	}
	fmt.Printf("KVC-STANDIN C14RET ok cases=%d bound: RetainCount 1..5 x 0..8 sends x one lost indication 0..10, and RetainCount 1..4 x 0..5 sends x two lost indications 0..5 each; no pause, recording socket\n", cases)
}

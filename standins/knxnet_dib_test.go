package knxnet

// Bounded stand-in for the part of C02 the deductive lemmas do not reach: search and description
// responses, whose friendly name passes through the charmap codec (an assumed contract without
// an inverse in the verifier). NOT exhaustive: the bound is in the KVC-STANDIN line.

import (
	"fmt"
	"reflect"
	"strings"
	"testing"

	"github.com/vapourismo/knx-go/knx/cemi"
)

func TestKvcStandinC02DIB(t *testing.T) {
	fail := func(format string, a ...interface{}) {
		fmt.Printf("KVC-STANDIN C02DIB FAIL "+format+"\n", a...)
		t.FailNow()
	}
	n := 0
	fills := []string{"a", "Z", "~", "é", "ÿ", " "}
	for nameLen := 0; nameLen <= 29; nameLen++ {
		for _, fill := range fills {
			name := strings.Repeat(fill, nameLen)
			if nameLen > 2 {
				name = "K" + name[len(fill):len(name)-len(fill)] + "x" // distinct first and last character
				if len([]rune(name)) != nameLen {
					name = strings.Repeat(fill, nameLen)
				}
			}
			for fam := 0; fam <= 20; fam++ {
				for pat := 0; pat < 4; pat++ {
					b := byte(pat*85 + nameLen + fam)
					var fams []ServiceFamily
					for i := 0; i < fam; i++ {
						fams = append(fams, ServiceFamily{Type: ServiceFamilyType(b + byte(i)), Version: byte(i) ^ b})
					}
					db := DescriptionBlock{
						DeviceHardware: DeviceInformationBlock{
							Type: DescriptionTypeDeviceInfo, Medium: KNXMedium(b), Status: DeviceStatus(b >> 1),
							Source: cemi.IndividualAddr(uint16(b)<<8 | uint16(^b)), ProjectIdentifier: ProjectInstallationIdentifier(uint16(^b)<<8 | uint16(b)),
							SerialNumber: DeviceSerialNumber{b, 1, 2, 3, 4, ^b}, RoutingMulticastAddress: Address{224, 0, 23, b},
							HardwareAddr: []byte{b, 2, 3, 4, 5, ^b}, FriendlyName: name,
						},
						SupportedServices: SupportedServicesDIB{Type: DescriptionTypeSupportedServiceFamilies, Families: fams},
					}
					sr := &SearchRes{Control: HostInfo{Protocol: UDP4, Address: Address{10, b, 0, 1}, Port: Port(3671 + int(b))}, DescriptionB: db}
					dr := (*DescriptionRes)(&db)
					for _, v := range []ServicePackable{sr, dr} {
						buf := AllocAndPack(v)
						var s Service
						k, err := Unpack(buf, &s)
						if err != nil {
							fail("%T with a %d-character name %q and %d families: the encoding is rejected: %v", v, nameLen, name, fam, err)
						}
						if k != uint(len(buf)) {
							fail("%T with a %d-character name and %d families: decoder consumed %d of %d bytes", v, nameLen, fam, k, len(buf))
						}
						if reflect.TypeOf(s) != reflect.TypeOf(v) {
							fail("%T decodes as %T", v, s)
						}
						// families: nil and empty are the same value for this purpose
						norm := func(x Service) {
							switch y := x.(type) {
							case *SearchRes:
								if len(y.DescriptionB.SupportedServices.Families) == 0 {
									y.DescriptionB.SupportedServices.Families = nil
								}
								y.DescriptionB.UnknownBlocks = nil
							case *DescriptionRes:
								if len(y.SupportedServices.Families) == 0 {
									y.SupportedServices.Families = nil
								}
								y.UnknownBlocks = nil
							}
						}
						norm(s)
						norm(v)
						if !reflect.DeepEqual(s, v) {
							fail("%T with a %d-character name %q and %d families decodes to a different value:\n sent %+v\n got  %+v", v, nameLen, name, fam, v, s)
						}
						// decode, re-encode, decode: same value
						buf2 := AllocAndPack(s.(ServicePackable))
						var s2 Service
						if _, err := Unpack(buf2, &s2); err != nil {
							fail("%T: re-encoding of the decoded value is rejected: %v", v, err)
						}
						norm(s2)
						if !reflect.DeepEqual(s2, s) {
							fail("%T: decode, re-encode, decode changes the value", v)
						}
						n++
					}
				}
			}
		}
	}
	fmt.Printf("KVC-STANDIN C02DIB ok cases=%d bound: friendly names of every length 0..29 in 6 fill patterns (ASCII and Latin-1), 0..20 service families, 4 field patterns, SearchRes and DescriptionRes\n", n)
}

package knxnet

// Bounded stand-in for the part of C16 that the deductive check only inherits from an assumed
// byte-stream contract of bufio/io: independence of the TCP receiver from the way the stream is
// cut into segments, run on the real code over loopback TCP. NOT exhaustive: the bound is in
// the KVC-STANDIN line.

import (
	"fmt"
	"net"
	"reflect"
	"testing"
	"time"

	"github.com/vapourismo/knx-go/knx/cemi"
)

func TestKvcStandinC16TCP(t *testing.T) {
	fail := func(format string, a ...interface{}) {
		fmt.Printf("KVC-STANDIN C16TCP FAIL "+format+"\n", a...)
		t.FailNow()
	}
	frames := []ServicePackable{
		&ConnStateReq{Channel: 7, Status: 0, Control: HostInfo{Protocol: TCP4}},
		&TunnelReq{Channel: 7, SeqNumber: 1, Payload: &cemi.LDataReq{LData: cemi.LData{Control1: 0xbc, Control2: 0xe0, Source: 0x1101, Destination: 0x0a03,
			Data: &cemi.AppData{Command: cemi.GroupValueWrite, Data: []byte{1}}}}},
		&TunnelRes{Channel: 7, SeqNumber: 1, Status: 0},
		&TunnelReq{Channel: 7, SeqNumber: 2, Payload: &cemi.LDataInd{LData: cemi.LData{Info: cemi.Info{1, 2, 3}, Control1: 0xbc, Control2: 0xe0, Source: 0x1102, Destination: 0x0a04,
			Data: &cemi.AppData{Command: cemi.GroupValueWrite, Data: []byte{0, 1, 2, 3, 4, 5, 6, 7, 8, 9, 10, 11, 12, 13}}}}},
		&DiscReq{Channel: 7, Status: 0, Control: HostInfo{Protocol: TCP4}},
		&TunnelReq{Channel: 7, SeqNumber: 3, Payload: &cemi.LDataCon{LData: cemi.LData{Control1: 0xbc, Control2: 0xe0, Source: 0x1103, Destination: 0x0a05,
			Data: &cemi.ControlData{Numbered: true, SeqNumber: 5, Command: 1}}}},
	}
	var stream []byte
	var bounds []int
	for _, f := range frames {
		stream = append(stream, AllocAndPack(f)...)
		bounds = append(bounds, len(stream))
	}
	ln, err := net.Listen("tcp4", "127.0.0.1:0")
	if err != nil {
		fmt.Printf("KVC-STANDIN C16TCP ok segmentations=0 SKIPPED: loopback TCP is not available here (%v)\n", err)
		return
	}
	defer ln.Close()
	run := func(name string, cuts []int) {
		done := make(chan error, 1)
		go func() {
			c, err := ln.Accept()
			if err != nil {
				done <- err
				return
			}
			c.(*net.TCPConn).SetNoDelay(true)
			prev := 0
			for _, k := range append(cuts, len(stream)) {
				if k <= prev || k > len(stream) {
					continue
				}
				if _, err := c.Write(stream[prev:k]); err != nil {
					done <- err
					return
				}
				prev = k
				time.Sleep(300 * time.Microsecond)
			}
			c.Close()
			done <- nil
		}()
		sock, err := DialTunnelTCP(ln.Addr().String())
		if err != nil {
			fail("%s: dial: %v", name, err)
		}
		defer sock.Close()
		for i, f := range frames {
			select {
			case got, ok := <-sock.Inbound():
				if !ok {
					fail("%s: inbound closed before frame %d of %d", name, i+1, len(frames))
				}
				if !reflect.DeepEqual(got, Service(f)) {
					fail("%s: frame %d surfaced as %+v, sent %+v", name, i+1, got, f)
				}
			case <-time.After(5 * time.Second):
				fail("%s: frame %d of %d never surfaced", name, i+1, len(frames))
			}
		}
		select {
		case got, ok := <-sock.Inbound():
			if ok {
				fail("%s: an extra frame surfaced: %+v", name, got)
			}
		case <-time.After(5 * time.Second):
			fail("%s: inbound not closed after the peer closed the connection", name)
		}
		if err := <-done; err != nil {
			fail("%s: writer: %v", name, err)
		}
	}
	n := 0
	run("whole", nil)
	n++
	for k := 1; k < len(stream); k++ { // every single cut position
		run(fmt.Sprintf("cut-at-%d", k), []int{k})
		n++
	}
	var dribble []int
	for k := 1; k < len(stream); k++ {
		dribble = append(dribble, k)
	}
	run("one-byte-dribble", dribble)
	n++
	run("frame-bounds", bounds)
	n++
	for step := 2; step <= 13; step++ { // regular chunks of 2..13 bytes
		var cs []int
		for k := step; k < len(stream); k += step {
			cs = append(cs, k)
		}
		run(fmt.Sprintf("chunks-of-%d", step), cs)
		n++
	}
	fmt.Printf("KVC-STANDIN C16TCP ok segmentations=%d bound: one stream of %d frames (%d bytes) of 5 service types: unsplit, every single cut position, 1-byte dribble, frame boundaries, regular chunks of 2..13 bytes; loopback TCP\n", n, len(frames), len(stream))
}
